(* C09 — division family: quotient within one LSB, exact floor-division and modulo.
   Reference codes: SpecArith.truediv_floor / floordiv_code / mod_code (integer codes of
   the optimal formats).  Model: Div.div_raw / Div.div_repr. *)
From Coq Require Import ZArith List Bool Lia.
From FxpVerif Require Import Spec SpecArith NP Store ProofsCore Arith ProofsArith Div ProofsDiv ProofsDivModel.
Import ListNotations.
Open Scope Z_scope.

(* x/y (raw method): the stored code is floor of the exactly scaled quotient, i.e. below the
   exact quotient by less than one LSB ... *)
Theorem C09_truediv_within_one_lsb : forall fx a fy b, b <> 0 ->
  let n := a * 2^(truediv_k fx fy) in let z := truediv_floor fx a fy b in
  (0 < b -> z * b <= n < (z + 1) * b) /\ (b < 0 -> (z + 1) * b < n <= z * b).
Proof. exact truediv_floor_bounds. Qed.
Print Assumptions C09_truediv_within_one_lsb.
(* ... and exact whenever the quotient is representable in the result format *)
Theorem C09_truediv_exact_when_representable : forall fx a fy b, b <> 0 ->
  truediv_exactb fx a fy b = true -> truediv_floor fx a fy b * b = a * 2^(truediv_k fx fy).
Proof. exact truediv_exact. Qed.
Print Assumptions C09_truediv_exact_when_representable.
(* with optimal sizing it never overflows: a bound over ALL operand formats *)
Theorem C09_truediv_no_overflow : forall fx a fy b, 1 <= nw fx -> 1 <= nw fy -> in_range fx a -> in_range fy b -> b <> 0 ->
  in_range (grow_truediv fx fy) (truediv_floor fx a fy b).
Proof. exact truediv_in_range. Qed.
Print Assumptions C09_truediv_no_overflow.

(* x//y equals floor(x/y) *)
Theorem C09_floordiv_is_floor : forall fx a fy b, b <> 0 ->
  let '(A, B) := aligned fx a fy b in let q := floordiv_code fx a fy b in
  (0 < B -> q * B <= A < (q + 1) * B) /\ (B < 0 -> (q + 1) * B < A <= q * B).
Proof. exact floordiv_is_floor. Qed.
Print Assumptions C09_floordiv_is_floor.
(* x%y = x - y*floor(x/y), with the divisor's sign; so (x//y)*y + x%y reproduces x *)
Theorem C09_mod_and_reconstruction : forall fx a fy b, b <> 0 ->
  let '(A, B) := aligned fx a fy b in
  floordiv_code fx a fy b * B + mod_code fx a fy b = A /\
  (0 < B -> 0 <= mod_code fx a fy b < B) /\ (B < 0 -> B < mod_code fx a fy b <= 0).
Proof. exact reconstruct. Qed.
Print Assumptions C09_mod_and_reconstruction.

(* the model of the raw method (_truediv_raw / _floordiv_raw / _mod_raw, then set_val(raw=True))
   stores exactly those reference codes, with no flag, for operands of ANY signedness
   combination (mixed signedness: float64 floor_divide / remainder, exact at these sizes),
   words up to 26 bits, arrays of any positive length.  The repr method of x/y (a rounded
   double quotient, then the configured rounding) is covered by the correspondence run,
   where the implementation must return one of the two neighbours. *)
Theorem C09_truediv_raw_model : forall fx fy cxs cys r o, div_small fx -> div_small fy ->
  length cxs = length cys -> cxs <> [] -> Forall (in_range fx) cxs -> Forall (fun b => in_range fy b /\ b <> 0) cys ->
  exists w, div_raw DTrue fx cxs fy cys (grow_truediv fx fy) r o = Ok w /\
    w_codes w = map (fun p => truediv_floor fx (fst p) fy (snd p)) (combine cxs cys) /\ w_ovf w = false /\ w_unf w = false.
Proof. exact truediv_raw_model_any. Qed.
Print Assumptions C09_truediv_raw_model.

Theorem C09_floordiv_raw_model : forall fx fy cxs cys r o, div_small fx -> div_small fy -> 1 <= nw (grow_floordiv fx fy) <= 53 ->
  length cxs = length cys -> cxs <> [] -> Forall (in_range fx) cxs -> Forall (fun b => in_range fy b /\ b <> 0) cys ->
  exists w, div_raw DFloor fx cxs fy cys (grow_floordiv fx fy) r o = Ok w /\
    w_codes w = map (fun p => floordiv_code fx (fst p) fy (snd p)) (combine cxs cys) /\ w_ovf w = false /\ w_unf w = false.
Proof. exact floordiv_raw_model_any. Qed.
Print Assumptions C09_floordiv_raw_model.

Theorem C09_mod_raw_model : forall fx fy cxs cys r o, div_small fx -> div_small fy ->
  length cxs = length cys -> cxs <> [] -> Forall (in_range fx) cxs -> Forall (fun b => in_range fy b /\ b <> 0) cys ->
  exists w, div_raw DMod fx cxs fy cys (grow_mod fx fy) r o = Ok w /\
    w_codes w = map (fun p => mod_code fx (fst p) fy (snd p)) (combine cxs cys) /\ w_ovf w = false /\ w_unf w = false.
Proof. exact mod_raw_model_any. Qed.
Print Assumptions C09_mod_raw_model.

(* the floor quotient and the modulo never overflow their optimal formats *)
Theorem C09_floordiv_mod_no_overflow : forall fx a fy b, div_small fx -> div_small fy -> in_range fx a -> in_range fy b -> b <> 0 ->
  in_range (grow_floordiv fx fy) (floordiv_code fx a fy b) /\ in_range (grow_mod fx fy) (mod_code fx a fy b).
Proof. intros. split; [apply floordiv_in_range | apply mod_in_range]; assumption. Qed.
Print Assumptions C09_floordiv_mod_no_overflow.

(* the two calculation methods agree on // and % also when an operand word exceeds 53 bits (where the float value of that operand
   would be rounded): the value method is then DEFINED as the integer-code method (fix 2a01ad6), so the raw-model theorems above
   speak about both *)
Theorem C09_methods_agree_wide_operands : forall d fx cxs fy cys fz r o, d <> DTrue -> (53 < nw fx \/ 53 < nw fy) ->
  div_repr d fx cxs fy cys fz r o = div_raw d fx cxs fy cys fz r o.
Proof.
  intros d fx cxs fy cys fz r o Hd Hw. unfold div_repr.
  assert (E: (53 <? nw fx) || (53 <? nw fy) = true) by (destruct Hw; [replace (53 <? nw fx) with true by lia | replace (53 <? nw fy) with true by lia; rewrite orb_true_r]; reflexivity).
  destruct d; [congruence| |]; rewrite E; reflexivity.
Qed.
Print Assumptions C09_methods_agree_wide_operands.

Example C09_nonvacuous :
  let fx := {| sg := true; nw := 5; nf := 2 |} in let fy := {| sg := true; nw := 4; nf := 1 |} in
  div_small fx /\ div_small fy /\ in_range fx (-7) /\ in_range fy 3 /\
  truediv_floor fx (-7) fy 3 = -19 /\ floordiv_code fx (-7) fy 3 = -2 /\ mod_code fx (-7) fy 3 = 5 /\
  div_raw DTrue fx [-7] fy [3] (grow_truediv fx fy) Trunc Saturate = Ok {| w_codes := [-19]; w_ovf := false; w_unf := false; w_inacc := false |}.
Proof. cbv zeta. unfold div_small, in_range. repeat split; try (vm_compute; reflexivity); cbn; discriminate. Qed.
