(* C01 — storing a value quantizes it exactly: scale, round, then saturate or wrap.
   Statements only; proofs are in ProofsStore.v.  The model function is
   Store.set_val_real (mirrors Fxp.set_val, objects.py:802-932). *)
From Coq Require Import ZArith List Bool.
From FxpVerif Require Import Spec NP Store ProofsCore ProofsStore ProofsHuge.
Import ListNotations.
Open Scope Z_scope.

(* float64 carriers (Python float, NumPy float scalars/arrays, lists with a float,
   decimal strings): for every core format, all 10 mode pairs, arrays of any length *)
Theorem C01_store_float_arrays : forall f r o vs,
  core_fmt f -> Forall (core_dy f) vs ->
  set_val_real f r o false (AF64 (map f64_of_core vs)) VFloat
  = Ok {| w_codes := map (quantize f r o) vs;
          w_ovf := existsb (ovf_cond f r) vs; w_unf := existsb (unf_cond f r) vs;
          w_inacc := existsb (inacc_cond f r o) vs |}.
Proof. exact set_val_floats_core. Qed.
Print Assumptions C01_store_float_arrays.

(* float inputs of ANY finite magnitude under saturate, n_frac >= 0 (the extension of the
   core domain the property states): every finite double (53-bit mantissa, any exponent),
   arrays of any length mixing huge and fractional elements — whether the scaled double
   overflows to infinity, and whether set_val takes its Python-object path (some element
   beyond 2^64) or not *)
Theorem C01_store_floats_saturate_any_magnitude : forall f r vs,
  1 <= nw f <= 52 -> 0 <= nf f <= 60 -> Forall dbl vs ->
  set_val_real f r Saturate false (AF64 (map (fun v => Fin (dm v) (de v)) vs)) VFloat
  = Ok {| w_codes := map (quantize f r Saturate) vs;
          w_ovf := existsb (ovf_cond f r) vs; w_unf := existsb (unf_cond f r) vs;
          w_inacc := existsb (inacc_cond f r Saturate) vs |}.
Proof. exact set_val_floats_saturate_any. Qed.
Print Assumptions C01_store_floats_saturate_any_magnitude.

(* complex inputs: each component is quantized on its own, the flags are those of either part *)
Theorem C01_store_complex_arrays : forall f r o vre vim,
  core_fmt f -> Forall (core_dy f) vre -> Forall (core_dy f) vim ->
  set_val_complex f r o (map f64_of_core vre) (map f64_of_core vim)
  = Ok {| cw_re := map (quantize f r o) vre; cw_im := map (quantize f r o) vim;
          cw_ovf := existsb (ovf_cond f r) vre || existsb (ovf_cond f r) vim;
          cw_unf := existsb (unf_cond f r) vre || existsb (unf_cond f r) vim;
          cw_inacc := existsb (inacc_cond f r o) vre || existsb (inacc_cond f r o) vim |}.
Proof. exact set_val_complex_core. Qed.
Print Assumptions C01_store_complex_arrays.

(* integer carriers (Python int, NumPy integer scalars/arrays, lists of ints) *)
Theorem C01_store_int_arrays : forall f r o zs,
  core_fmt f -> Forall (core_int f) zs ->
  set_val_real f r o false (AI64 zs) VInt
  = Ok {| w_codes := map (quantize f r o) (map dy_of_Z zs);
          w_ovf := existsb (ovf_cond f r) (map dy_of_Z zs); w_unf := existsb (unf_cond f r) (map dy_of_Z zs);
          w_inacc := existsb (inacc_cond f r o) (map dy_of_Z zs) |}.
Proof. exact set_val_ints_core. Qed.
Print Assumptions C01_store_int_arrays.

(* the value read back is exactly code * 2^-n_frac *)
Theorem C01_read_back : forall f r o v, core_fmt f ->
  get_val_f64 f (quantize f r o v) = Fin (quantize f r o v) (- nf f).
Proof. exact get_val_core. Qed.
Print Assumptions C01_read_back.

(* every stored code is inside the format's range *)
Theorem C01_code_in_range : forall f r o v, 1 <= nw f -> in_range f (quantize f r o v).
Proof. intros f r o v H. exact (overflow_in_range o f _ H). Qed.
Print Assumptions C01_code_in_range.

(* non-vacuity: a concrete format and input meeting every hypothesis; s8/2, around,
   wrap, the tie 31.625 = 253 * 2^-3 -> 126.5 -> 126 (even) ; 200.375 -> 801.5 -> 802 (even) -> wraps to 34 *)
Example C01_nonvacuous :
  let f := {| sg := true; nw := 8; nf := 2 |} in
  core_fmt f /\ Forall (core_dy f) [ {| dm := 253; de := -3 |}; {| dm := 1603; de := -3 |} ] /\
  map (quantize f Around Wrap) [ {| dm := 253; de := -3 |}; {| dm := 1603; de := -3 |} ] = [126; 34].
Proof. cbv zeta. split; [unfold core_fmt; cbn; split; split; discriminate|]. split.
  - repeat constructor; cbn; try discriminate; try reflexivity; intros; try discriminate; try reflexivity.
  - vm_compute. reflexivity.
Qed.
