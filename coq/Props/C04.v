(* C04 — status flags and callbacks report exactly what happened, and are sticky.
   Real-valued writes (the complex path calls _overflow_action once per component and is
   outside these statements). *)
From Coq Require Import ZArith List Bool.
From FxpVerif Require Import Spec NP Store ProofsCore ProofsStore Status ProofsStatus.
Import ListNotations.
Open Scope Z_scope.

(* one write: the three conditions raised are exactly the Spec conditions (iff, as booleans)
   and the callbacks fire once each, in the order overflow, underflow, inaccuracy, change *)
Theorem C04_write_flags_and_callbacks : forall f r o vs, core_fmt f -> Forall (core_dy f) vs ->
  exists w, set_val_real f r o false (AF64 (map f64_of_core vs)) VFloat = Ok w /\
    w_ovf w = existsb (fun v => cmax f <? round_dy r (dy_scale (nf f) v)) vs /\
    w_unf w = existsb (fun v => round_dy r (dy_scale (nf f) v) <? cmin f) vs /\
    w_inacc w = existsb (fun v => negb (dy_eqb (val_of_code f (quantize f r o v)) v)) vs /\
    write_events w = (if w_ovf w then [EvOvf] else []) ++ (if w_unf w then [EvUnf] else []) ++
                     (if w_inacc w then [EvInacc] else []) ++ [EvChange].
Proof.
  intros f r o vs Hf Hv. eexists. split; [exact (set_val_floats_core f r o vs Hf Hv)|].
  repeat split; reflexivity.
Qed.
Print Assumptions C04_write_flags_and_callbacks.

(* any history of writes and resets: the flags are the OR of the per-write Spec conditions
   since the last reset; the callbacks of each step are the Spec ones; extended_prec is
   never touched *)
Theorem C04_history : forall f r o steps, core_fmt f -> Forall (step_ok f) steps -> forall st,
  exists trace, history_run f r o st (map to_hstep steps) = Ok trace /\
    map snd trace = map (spec_events f r o) steps /\
    flags_of (last_status st trace) = expected f r o (flags_of st) steps /\
    st_extp (last_status st trace) = st_extp st.
Proof. exact history_core. Qed.
Print Assumptions C04_history.

Theorem C04_sticky : forall f r o acc steps, Forall (fun s => s <> SReset) steps ->
  let '(a1, a2, a3) := acc in let '(e1, e2, e3) := expected f r o acc steps in
  (a1 = true -> e1 = true) /\ (a2 = true -> e2 = true) /\ (a3 = true -> e3 = true).
Proof. exact expected_sticky. Qed.
Print Assumptions C04_sticky.

Theorem C04_reset : forall st,
  flags_of (status_reset st) = (false, false, false) /\ st_extp (status_reset st) = st_extp st.
Proof. exact reset_clears. Qed.
Print Assumptions C04_reset.

Theorem C04_propagate : forall ops own, existsb (fun b => b) ops = true -> result_inacc ops own = true.
Proof. exact propagate. Qed.
Print Assumptions C04_propagate.

Example C04_nonvacuous :
  let f := {| sg := true; nw := 4; nf := 1 |} in
  expected f Trunc Saturate (false, false, false)
    [SWrite [{| dm := 9; de := 0 |}; {| dm := 1; de := -2 |}]; SWrite [{| dm := 1; de := 0 |}]; SReset; SWrite [{| dm := -9; de := 0 |}]]
  = (false, true, true).
Proof. vm_compute. reflexivity. Qed.
