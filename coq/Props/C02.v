(* C02 — every produced object is well-formed: codes in range, metadata consistent.
   Every public constructor, setter, operator, conversion and reduction ends in set_val
   (or, for >> in trunc/keep mode, in the one direct buffer write treated in C14), so range
   membership of the written codes is an invariant of EVERY call of the model of set_val,
   whatever its arguments.  The metadata (n_int, upper, lower, precision, dtype) are functions of
   the format in the model; their correctness is C17_limits / C12. *)
From Coq Require Import ZArith List Bool Lia.
From FxpVerif Require Import Spec NP Store ProofsCore ProofsStore ProofsWrap ProofsArith ProofsWf Shift ProofsShift ProofsHuge.
Import ListNotations.
Open Scope Z_scope.

(* whatever array, dtype, raw flag, rounding and overflow mode set_val is called with, every code
   it writes lies inside the range of the object's own format (words up to 53 bits) *)
Theorem C02_every_write_in_range : forall f r o raw a vd w, 1 <= nw f <= 53 ->
  set_val_real f r o raw a vd = Ok w -> Forall (in_range f) (w_codes w).
Proof. exact set_val_codes_in_range. Qed.
Print Assumptions C02_every_write_in_range.
(* wider words: wrap always ends in range (C03, every width) and so does saturation *)
Theorem C02_overflow_in_range : forall o f c, 1 <= nw f -> in_range f (overflow o f c).
Proof. exact overflow_in_range. Qed.
Print Assumptions C02_overflow_in_range.
(* the one direct buffer write (x >> n in trunc/keep mode) stays in range *)
Theorem C02_rshift_keep_in_range : forall f c n, 0 <= n -> 1 <= nw f -> in_range f c ->
  rshift_fmt_codes ShKeep f [c] n = Ok (f, [c / 2^n]) /\ in_range f (c / 2^n).
Proof. exact rshift_keep_floor. Qed.
Print Assumptions C02_rshift_keep_in_range.
(* n_int = n_word - n_frac - sign bit *)
Theorem C02_n_int : forall f, n_int f = nw f - nf f - (if sg f then 1 else 0).
Proof. reflexivity. Qed.
Print Assumptions C02_n_int.

(* under saturate a Python integer of ANY size is stored as the bound on its own side *)
Theorem C02_saturate_side_int : forall f r v, 1 <= nw f -> 0 <= nf f ->
  exists w, set_val_real f r Saturate false (pyint_arr v) VInt = Ok w /\
    (cmax f < v * 2^(nf f) -> w_codes w = [cmax f] /\ w_ovf w = true /\ w_unf w = false) /\
    (v * 2^(nf f) < cmin f -> w_codes w = [cmin f] /\ w_unf w = true /\ w_ovf w = false).
Proof. exact saturate_side_int. Qed.
Print Assumptions C02_saturate_side_int.
(* the same for float inputs of any finite magnitude: the stored codes are the Spec's
   quantization, i.e. the bound on the value's own side (C01_store_floats_saturate_any_magnitude) *)
Theorem C02_saturate_side_float : forall f r vs,
  1 <= nw f <= 52 -> 0 <= nf f <= 60 -> Forall dbl vs ->
  exists w, set_val_real f r Saturate false (AF64 (map (fun v => Fin (dm v) (de v)) vs)) VFloat = Ok w /\
    w_codes w = map (fun v => sat f (round_dy r (dy_scale (nf f) v))) vs /\ Forall (in_range f) (w_codes w).
Proof.
  intros f r vs Hw Hf Hv. eexists. split; [exact (set_val_floats_saturate_any f r vs Hw Hf Hv)|].
  cbn [w_codes spec_wres]. split; [reflexivity|].
  apply Forall_forall. intros c Hc. apply in_map_iff in Hc. destruct Hc as (v & <- & _).
  apply (overflow_in_range Saturate f). lia.
Qed.
Print Assumptions C02_saturate_side_float.

(* ... and for words of ANY length up to 960 bits (fix b7d5946: a bound of more than 53 bits is not a double; floats that can
   reach it are compared and clamped as integers): every finite double, in arrays of any length, is stored as
   sat(round(v * 2^n_frac)) — in range, the bound on the value's own side — with the exact overflow / underflow conditions *)
Theorem C02_saturate_side_float_any_width : forall f r vs,
  1 <= nw f <= 960 -> 0 <= nf f <= 960 -> Forall dbl vs ->
  exists w, set_val_real f r Saturate false (AF64 (map (fun v => Fin (dm v) (de v)) vs)) VFloat = Ok w /\
    w_codes w = map (quantize f r Saturate) vs /\ Forall (in_range f) (w_codes w) /\
    w_ovf w = existsb (ovf_cond f r) vs /\ w_unf w = existsb (unf_cond f r) vs.
Proof.
  intros f r vs Hw Hf Hv. destruct (set_val_floats_saturate_any_width f r vs Hw Hf Hv) as (w & H & Hc & Hg & Hl).
  exists w. repeat split; try assumption. rewrite Hc.
  apply Forall_forall. intros c Hin. apply in_map_iff in Hin. destruct Hin as (v & <- & _).
  apply (overflow_in_range Saturate f). lia.
Qed.
Print Assumptions C02_saturate_side_float_any_width.

(* the value upper + 1 LSB of a 63-bit word, after an in-range element: the maximum code, flagged (it was stored as 2^62 before the fix) *)
Example C02_wide_float_example :
  exists w, set_val_real {| sg := true; nw := 63; nf := 62 |} Trunc Saturate false (AF64 [Fin 1 (-1); Fin 1 0]) VFloat = Ok w /\
            w_codes w = [2^61; 2^62 - 1] /\ w_ovf w = true.
Proof. eexists. vm_compute. repeat split; reflexivity. Qed.

Example C02_nonvacuous :
  exists w, set_val_real {| sg := true; nw := 8; nf := 4 |} Trunc Saturate false (pyint_arr (- 2^1000)) VInt = Ok w /\
            w_codes w = [-128] /\ w_unf w = true.
Proof. eexists. vm_compute. repeat split; reflexivity. Qed.
