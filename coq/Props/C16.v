(* C16 — comparisons and numeric conversions agree with the exact stored value.
   Model: Conv.fxp_cmp / fxp_cmp_num (both sides get_val()), astype_int, fxp_bool, uraw. *)
From Coq Require Import ZArith List Bool.
From FxpVerif Require Import Spec NP Store ProofsCore ProofsStore Conv ProofsConv.
Import ListNotations.
Open Scope Z_scope.

Theorem C16_compare_fxp : forall c fx cx fy cy, exact_fmt fx -> exact_fmt fy -> in_range fx cx -> in_range fy cy ->
  fxp_cmp c fx cx fy cy = dy_cmpop c (val_of_code fx cx) (val_of_code fy cy).
Proof. exact cmp_exact. Qed.
Print Assumptions C16_compare_fxp.
Theorem C16_compare_number : forall c fx cx m e, exact_fmt fx -> in_range fx cx ->
  fxp_cmp_num c fx cx (Fin m e) = dy_cmpop c (val_of_code fx cx) {| dm := m; de := e |}.
Proof. exact cmp_num_exact. Qed.
Print Assumptions C16_compare_number.
(* get_val / astype(float) / float(): exactly code * 2^-n_frac *)
Theorem C16_float_value : forall f c, core_fmt f -> Z.abs c < 2^53 -> get_val_f64 f c = Fin c (- nf f).
Proof. exact get_val_exact. Qed.
Print Assumptions C16_float_value.
(* astype(int) / int(): the floor of the exact value, for negative, zero and positive n_frac *)
Theorem C16_int_is_floor : forall f c, exact_fmt f -> in_range f c -> astype_int f c = Some (dy_floor (val_of_code f c)).
Proof. exact astype_int_floor. Qed.
Print Assumptions C16_int_is_floor.
Theorem C16_bool : forall f c, exact_fmt f -> in_range f c -> fxp_bool f c = negb (c =? 0).
Proof. exact bool_nonzero. Qed.
Print Assumptions C16_bool.
(* uraw(): the n_word-bit two's-complement image, for every word length *)
Theorem C16_uraw : forall f c, 1 <= nw f -> in_range f c -> uraw f c = c mod 2^(nw f).
Proof. exact uraw_image. Qed.
Print Assumptions C16_uraw.

Example C16_nonvacuous :
  let fx := {| sg := true; nw := 8; nf := 3 |} in let fy := {| sg := false; nw := 6; nf := -1 |} in
  exact_fmt fx /\ exact_fmt fy /\ in_range fx (-17) /\ in_range fy 1 /\
  fxp_cmp CLt fx (-17) fy 1 = true /\ astype_int fx (-17) = Some (-3) /\ astype_int fy 1 = Some 2 /\ uraw fx (-17) = 239.
Proof. cbv zeta. unfold exact_fmt, in_range. repeat split; try (vm_compute; reflexivity); cbn; discriminate. Qed.
