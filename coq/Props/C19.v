(* C19 — placeholder while the arithmetic model is being written; see DESIGN.md. *)
From Coq Require Import ZArith.
From FxpVerif Require Import Spec ProofsCore.
Open Scope Z_scope.
Theorem C19_quantize_in_range : forall f r o v, 1 <= nw f -> in_range f (quantize f r o v).
Proof. intros f r o v H. exact (overflow_in_range o f _ H). Qed.
Print Assumptions C19_quantize_in_range.
