(* C19 — no silent wrap at the 64-bit machine boundary in arithmetic or in storing.
   The theorems of C07 carry NO width hypothesis: they hold when the exact result needs more
   than 53 or more than 64 bits, because the _raw_cast guard is proved sound — whenever it
   leaves the operands in int64 / uint64 / float64, every intermediate is exact. *)
From Coq Require Import ZArith List Bool.
From FxpVerif Require Import Spec SpecArith NP Store ProofsCore ProofsStore Arith ProofsArith ProofsExact.
Import ListNotations.
Open Scope Z_scope.

(* guard soundness, per element: the raw function returns the exact integer in a dtype
   that can carry it (|z| < 2^63 in int64, reinterpretable in uint64, < 2^53 in float64) *)
Theorem C19_guard_sound : forall op fx fy cx cy,
  wf_op fx -> wf_op fy -> mul_pc_ok op fx fy -> in_range fx cx -> in_range fy cy ->
  forall ex, raw_elem ex op fx fy (nf (grow op fx fy)) cx cy = Ok (encode (raw_kind op fx fy) (exact_int op fx fy cx cy))
  /\ kind_ok (raw_kind op fx fy) (exact_int op fx fy cx cy).
Proof. exact raw_exact. Qed.
Print Assumptions C19_guard_sound.

(* add / sub / mul with optimal sizing: exact at every operand width *)
Theorem C19_arith_any_width : forall op fx fy cxs cys r o,
  wf_op fx -> wf_op fy -> mul_pc_ok op fx fy -> length cxs = length cys -> cxs <> [] ->
  Forall (in_range fx) cxs -> Forall (in_range fy) cys ->
  (op = OpSub -> sg fx || sg fy = true) ->
  exists w, arith_raw op fx cxs fy cys (grow op fx fy) r o = Ok w /\
    w_codes w = map (fun p => exact_int op fx fy (fst p) (snd p)) (combine cxs cys) /\
    w_ovf w = false /\ w_unf w = false.
Proof. exact arith_optimal_exact. Qed.
Print Assumptions C19_arith_any_width.

(* storing a Python integer of ANY size into ANY format with n_frac >= 0 follows C01 *)
Theorem C19_store_python_int : forall f r o v, 1 <= nw f -> 0 <= nf f ->
  exists w, set_val_real f r o false (pyint_arr v) VInt = Ok w /\
    w_codes w = [quantize f r o (dy_of_Z v)] /\
    w_ovf w = ovf_cond f r (dy_of_Z v) /\ w_unf w = unf_cond f r (dy_of_Z v).
Proof.
  intros f r o v Hw Hf. destruct (store_pyint_exact f r o v Hw Hf) as (w & Hs & Hc & Ho & Hu).
  exists w. split; [exact Hs|].
  assert (E: round_dy r (dy_scale (nf f) (dy_of_Z v)) = v * 2^(nf f)).
  { unfold dy_scale, dy_of_Z. cbn [dm de]. apply round_dy_int. exact Hf. }
  unfold quantize, ovf_cond, unf_cond. rewrite E. auto.
Qed.
Print Assumptions C19_store_python_int.

(* non-vacuity: witnesses that were wrong before the fix: commits (known_findings.json) *)
Example C19_nonvacuous :
  (exists w, set_val_real {| sg := true; nw := 8; nf := 4 |} Trunc Saturate false (pyint_arr (2^60)) VInt = Ok w /\ w_codes w = [127] /\ w_ovf w = true) /\
  (exists w, arith_raw OpMul {| sg := true; nw := 33; nf := 0 |} [-3298067730] {| sg := false; nw := 27; nf := 6 |} [134217724]
               {| sg := true; nw := 60; nf := 6 |} Trunc Saturate = Ok w /\ w_codes w = [-442659144318446520]).
Proof. split; eexists; vm_compute; repeat split; reflexivity. Qed.

(* ... and into a format with a NEGATIVE fraction length: integers of more than 53 bits (int64 carriers) are scaled with an
   exact rational factor, rounded once, whatever the word length; codes and the three flags *)
Theorem C19_store_wide_ints_negative_nfrac : forall f r o zs, 1 <= nw f -> nf f < 0 ->
  existsb (fun z => 2^53 <=? Z.abs z) zs = true ->
  set_val_real f r o false (AI64 zs) VInt = Ok (spec_wres f r o (map dy_of_Z zs)).
Proof. exact set_val_wide_ints_negative_nfrac. Qed.
Print Assumptions C19_store_wide_ints_negative_nfrac.

Example C19_negative_nfrac_nonvacuous :
  set_val_real {| sg := true; nw := 52; nf := -4 |} Trunc Saturate false (AI64 [2^53 + 1; 32]) VInt
  = Ok {| w_codes := [2^49; 2]; w_ovf := false; w_unf := false; w_inacc := true |}.
Proof. vm_compute. reflexivity. Qed.
