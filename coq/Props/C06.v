(* C06 — size inference picks the smallest format that holds the values exactly.
   Model: Sizes.init_size / best_sizes (both search loops of set_best_sizes on explicit fuel,
   exact dyadic inputs). *)
From Coq Require Import ZArith List Bool.
From FxpVerif Require Import Spec NP Store ProofsCore Sizes ProofsSizes ProofsSizes2.
Import ListNotations.
Open Scope Z_scope.

(* the integer-bit search: its loop test is exactly "both extremes lie in [-2^i, 2^i)" ... *)
Theorem C06_msb_test : forall x i, 0 <= i -> (msb x i =? 0) = ((- 2^i <=? x) && (x <? 2^i)).
Proof. exact msb_zero_iff. Qed.
Print Assumptions C06_msb_test.
(* ... so it returns the LEAST integer length that holds both extremes (or the cap) *)
Theorem C06_min_int_bits : forall fuel cap vmax vmin i r, 0 <= i -> int_loop fuel cap vmax vmin i = Some r ->
  i <= r /\ (forall j, i <= j < r -> fits_int vmax vmin j = false) /\ (r < cap -> fits_int vmax vmin r = true) /\ (r <= Z.max cap i).
Proof. exact int_loop_spec. Qed.
Print Assumptions C06_min_int_bits.
(* n_int given with one other size: the third follows arithmetically *)
Theorem C06_n_int_with_n_frac : forall s f i wmax vals,
  init_size (Some s) None (Some f) (Some i) wmax vals = Ok (s, i + f + (if s then 1 else 0), f).
Proof. exact init_size_nint_frac. Qed.
Print Assumptions C06_n_int_with_n_frac.
Theorem C06_n_int_with_n_word : forall s w i wmax vals,
  init_size (Some s) (Some w) None (Some i) wmax vals = Ok (s, w, w - i - (if s then 1 else 0)).
Proof. exact init_size_nint_word. Qed.
Print Assumptions C06_n_int_with_n_word.

(* the fraction-bit search (binary expansion of the fractional part) returns, for a value
   m * 2^e with e < 0, the LEAST n such that the value is a multiple of 2^-n: with n fraction
   bits the value is stored exactly, with fewer it is not (the search cap and the loop fuel
   of the model are not reached for fraction lengths up to 198; C06's domain has f <= 20) *)
Theorem C06_min_frac_bits : forall max_n v, de v < 0 -> - de v <= max_n -> - de v <= 198 ->
  exists n, frac_bits max_n v = Some n /\ 0 <= n <= - de v /\
    dm v mod 2^(- de v - n) = 0 /\ (forall j, 0 <= j < n -> dm v mod 2^(- de v - j) <> 0).
Proof. exact frac_bits_min. Qed.
Print Assumptions C06_min_frac_bits.

(* the combination step of set_best_sizes when both sizes are inferred and the cap is not reached (w < n_word_max), for arrays of
   ANY length whose elements are dyadics in any representation m * 2^e:
   - the inferred fraction length f is non-negative, EVERY element is a multiple of 2^-f, and no smaller j works for all of them;
   - the integer length w - sign - f is non-negative, the exact code int(v * 2^f) of every element fits in it (so nothing
     overflows and nothing is rounded), and when it is positive one bit fewer would not hold some element.
   [is_mult v n]: v is a multiple of 2^-n; [scaled_trunc v f] is the code the implementation computes, which is exact for
   multiples (C06_code_is_exact). *)
Theorem C06_best_sizes_minimal : forall (signed : bool) wmax vals w f,
  let sign := if signed then 1 else 0 in
  vals <> [] -> Forall (fun v => - de v <= wmax - sign /\ - de v <= 198) vals ->
  best_sizes signed None None wmax vals = Ok (w, f) -> w < wmax ->
  0 <= f /\ Forall (fun v => is_mult v f) vals /\
  (forall j, 0 <= j < f -> exists v, In v vals /\ ~ is_mult v j) /\
  f <= w - sign /\
  Forall (fun v => - 2^(w - sign) <= scaled_trunc v f < 2^(w - sign)) vals /\
  (f < w - sign -> exists v, In v vals /\ ~ (- 2^(w - sign - 1) <= scaled_trunc v f < 2^(w - sign - 1))).
Proof. exact best_sizes_minimal. Qed.
Print Assumptions C06_best_sizes_minimal.
(* for a multiple of 2^-n the truncated scaled value is the exact code: v = code * 2^-n (both sides scaled to a common exponent E) *)
Theorem C06_code_is_exact : forall v n E, is_mult v n -> E <= de v -> E <= - n ->
  dm v * 2^(de v - E) = scaled_trunc v n * 2^(- n - E).
Proof. exact code_sc. Qed.
Print Assumptions C06_code_is_exact.
(* only n_frac given, every element a multiple of 2^-n_frac: the fraction length is kept, and the word is the least one whose
   integer length is non-negative and holds every exact code *)
Theorem C06_given_frac_minimal_word : forall (signed : bool) wmax vals w f nfr,
  let sign := if signed then 1 else 0 in
  vals <> [] -> Forall (fun v => - de v <= 198) vals -> 0 <= nfr -> Forall (fun v => is_mult v nfr) vals ->
  best_sizes signed None (Some nfr) wmax vals = Ok (w, f) -> w < wmax ->
  f = nfr /\ f <= w - sign /\
  Forall (fun v => - 2^(w - sign) <= scaled_trunc v f < 2^(w - sign)) vals /\
  (f < w - sign -> exists v, In v vals /\ ~ (- 2^(w - sign - 1) <= scaled_trunc v f < 2^(w - sign - 1))).
Proof. exact best_sizes_given_frac. Qed.
Print Assumptions C06_given_frac_minimal_word.
(* the same for ANY given fraction length, NEGATIVE ones included (Fxp(8, n_frac=-2): the values are divided by 2^-n_frac, repaired by
   fix 616bb5f): the fraction length is kept, every exact code fits the word, and a word with magnitude bits has none to spare.  The
   cap is lowered by a negative n_frac because the search for the integer length stops at n_word_max - sign + n_frac. *)
Theorem C06_given_any_frac_minimal_word : forall (signed : bool) wmax vals w f nfr,
  let sign := if signed then 1 else 0 in
  vals <> [] -> Forall (fun v => - de v <= 198) vals -> Forall (fun v => is_mult v nfr) vals ->
  best_sizes signed None (Some nfr) wmax vals = Ok (w, f) -> w < wmax + Z.min nfr 0 ->
  f = nfr /\ f <= w - sign /\
  Forall (fun v => - 2^(w - sign) <= scaled_trunc v f < 2^(w - sign)) vals /\
  (f < w - sign -> 0 < w - sign -> exists v, In v vals /\ ~ (- 2^(w - sign - 1) <= scaled_trunc v f < 2^(w - sign - 1))).
Proof. exact best_sizes_given_frac_any. Qed.
Print Assumptions C06_given_any_frac_minimal_word.
Example C06_negative_frac_examples :
  best_sizes true None (Some (-2)) 64 [ {| dm := 8; de := 0 |} ] = Ok (3, -2) /\
  best_sizes false None (Some (-4)) 64 [ {| dm := 1; de := 4 |} ; {| dm := 3; de := 5 |} ] = Ok (3, -4) /\
  is_mult {| dm := 8; de := 0 |} (-2) /\ 3 < 64 + Z.min (-2) 0.
Proof. vm_compute. repeat split; try reflexivity; discriminate. Qed.
(* only n_word given (below the cap): the word is kept.  With nfr the least fraction length at which every element is exact:
   the result never exceeds nfr nor the room in the word; when it equals nfr every exact code fits the word (nothing overflows,
   nothing is rounded); when it is smaller and an integer part remains, that integer part w - sign - f is needed: one bit fewer
   would not hold the exact value of some element. *)
Theorem C06_given_word_best_frac : forall (signed : bool) wmax vals w0 w f,
  let sign := if signed then 1 else 0 in
  vals <> [] -> Forall (fun v => - de v <= wmax - sign /\ - de v <= 198) vals ->
  best_sizes signed (Some w0) None wmax vals = Ok (w, f) -> w0 < wmax ->
  exists nfr,
    (0 <= nfr /\ Forall (fun v => is_mult v nfr) vals /\ (forall j, 0 <= j < nfr -> exists v, In v vals /\ ~ is_mult v j)) /\
    w = w0 /\ f <= nfr /\ f <= w - sign /\
    (f = nfr -> Forall (fun v => - 2^(w - sign) <= scaled_trunc v f < 2^(w - sign)) vals) /\
    (f < nfr -> f < w - sign ->
       exists v, In v vals /\ ~ (- 2^(w - sign - f - 1 + nfr) <= scaled_trunc v nfr < 2^(w - sign - f - 1 + nfr))).
Proof. exact best_sizes_given_word. Qed.
Print Assumptions C06_given_word_best_frac.
(* an inferred word never exceeds the configured maximum, whichever of the sizes are given *)
Theorem C06_word_within_max : forall (signed : bool) nwo nfo wmax vals w f,
  best_sizes signed nwo nfo wmax vals = Ok (w, f) -> w <= wmax.
Proof. exact best_sizes_word_within_max. Qed.
Print Assumptions C06_word_within_max.
(* PARTIAL: the reconciliation with the 64-bit cap (fraction length shortened, value quantized and flagged inexact) and n_frac given
   for values that are not multiples of 2^-n_frac are modelled and compared on every case, not stated as theorems. *)
Example C06_given_examples :
  best_sizes true None (Some 4) 64 [ {| dm := -9; de := -2 |} ] = Ok (7, 4) /\
  best_sizes false (Some 8) None 64 [ {| dm := 5; de := -1 |} ] = Ok (8, 1) /\
  best_sizes true (Some 6) None 64 [ {| dm := 37; de := -3 |} ] = Ok (6, 2).
Proof. vm_compute. repeat split; reflexivity. Qed.
Example C06_minimal_example :
  best_sizes true None None 64 [ {| dm := -5; de := -3 |}; {| dm := 3; de := 0 |}; {| dm := 1; de := -1 |} ] = Ok (6, 3) /\
  is_mult {| dm := -5; de := -3 |} 3 /\ ~ is_mult {| dm := -5; de := -3 |} 2.
Proof. split; [vm_compute; reflexivity|]. unfold is_mult. cbn. split; [exact I|]. vm_compute. discriminate. Qed.

Example C06_nonvacuous :
  init_size None None None None 64 (Some [ {| dm := -5; de := -3 |}; {| dm := 3; de := 0 |} ]) = Ok (true, 6, 3) /\
  init_size (Some false) (Some 8) None None 64 (Some [ {| dm := 5; de := -1 |} ]) = Ok (false, 8, 1) /\
  init_size None None (Some 4) None 64 (Some [ {| dm := -9; de := -2 |} ]) = Ok (true, 7, 4).
Proof. vm_compute. repeat split; reflexivity. Qed.
