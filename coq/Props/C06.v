(* C06 — size inference picks the smallest format that holds the values exactly.
   Model: Sizes.init_size / best_sizes (both search loops of set_best_sizes on explicit fuel,
   exact dyadic inputs). *)
From Coq Require Import ZArith List Bool.
From FxpVerif Require Import Spec NP Store ProofsCore Sizes ProofsSizes.
Import ListNotations.
Open Scope Z_scope.

(* the integer-bit search: its loop test is exactly "both extremes lie in [-2^i, 2^i)" ... *)
Theorem C06_msb_test : forall x i, 0 <= i -> (msb x i =? 0) = ((- 2^i <=? x) && (x <? 2^i)).
Proof. exact msb_zero_iff. Qed.
Print Assumptions C06_msb_test.
(* ... so it returns the LEAST integer length that holds both extremes (or the cap) *)
Theorem C06_min_int_bits : forall fuel cap vmax vmin i r, 0 <= i -> int_loop fuel cap vmax vmin i = Some r ->
  i <= r /\ (forall j, i <= j < r -> fits_int vmax vmin j = false) /\ (r < cap -> fits_int vmax vmin r = true) /\ (r <= Z.max cap i).
Proof. exact int_loop_spec. Qed.
Print Assumptions C06_min_int_bits.
(* n_int given with one other size: the third follows arithmetically *)
Theorem C06_n_int_with_n_frac : forall s f i wmax vals,
  init_size (Some s) None (Some f) (Some i) wmax vals = Ok (s, i + f + (if s then 1 else 0), f).
Proof. exact init_size_nint_frac. Qed.
Print Assumptions C06_n_int_with_n_frac.
Theorem C06_n_int_with_n_word : forall s w i wmax vals,
  init_size (Some s) (Some w) None (Some i) wmax vals = Ok (s, w, w - i - (if s then 1 else 0)).
Proof. exact init_size_nint_word. Qed.
Print Assumptions C06_n_int_with_n_word.

(* PARTIAL: minimality of the inferred n_frac (the binary-expansion loop frac_loop) and exactness of
   the stored values are not yet theorems; the correspondence run checks them against exact
   rationals for every generated case, and compares the model on every case. *)
Example C06_nonvacuous :
  init_size None None None None 64 (Some [ {| dm := -5; de := -3 |}; {| dm := 3; de := 0 |} ]) = Ok (true, 6, 3) /\
  init_size (Some false) (Some 8) None None 64 (Some [ {| dm := 5; de := -1 |} ]) = Ok (false, 8, 1) /\
  init_size None None (Some 4) None 64 (Some [ {| dm := -9; de := -2 |} ]) = Ok (true, 7, 4).
Proof. vm_compute. repeat split; reflexivity. Qed.
