(* C14 — shifts scale by powers of two: lossless in expand mode, arithmetic otherwise.
   Model: Shift.fxp_lshift / fxp_rshift, utils.min_pow2 as a fuelled loop. *)
From Coq Require Import ZArith List Bool.
From FxpVerif Require Import Spec NP Store ProofsCore Bitwise Shift ProofsShift.
Import ListNotations.
Open Scope Z_scope.

(* x << n in expand mode equals x * 2^n exactly: the word grows as needed, no flag - for EVERY word length and every shift
   count (the needed bits are counted exactly on integers, the shift is done on Python integers from 64 bits on) *)
Theorem C14_lshift_expand : forall f c n, 0 <= n -> 1 <= nw f -> in_range f c ->
  exists w, fxp_lshift ShExpand f c n = Ok (lshift_fmt ShExpand f [c] n, w) /\
    w_codes w = [c * 2^n] /\ w_ovf w = false /\ w_unf w = false /\ nf (lshift_fmt ShExpand f [c] n) = nf f.
Proof. exact lshift_expand_exact. Qed.
Print Assumptions C14_lshift_expand.
(* shifting by zero is the identity on the format too: no bit is added that is not needed *)
Theorem C14_lshift_zero_keeps_format : forall f c, 1 <= nw f -> in_range f c -> lshift_fmt ShExpand f [c] 0 = f.
Proof. exact lshift_zero_keeps_format. Qed.
Print Assumptions C14_lshift_zero_keeps_format.
(* arrays of any length: one common word, every element shifted exactly, no flag; the common word is the least one (unless the
   array is all zeros, where the count is still added although no bit is needed) *)
Theorem C14_lshift_expand_arrays : forall f codes n, 0 <= n -> 1 <= nw f -> Forall (in_range f) codes ->
  exists w, fxp_lshift_arr ShExpand f codes n = Ok (lshift_fmt ShExpand f codes n, w) /\
    w_codes w = map (fun c => c * 2^n) codes /\ w_ovf w = false /\ w_unf w = false /\ nf (lshift_fmt ShExpand f codes n) = nf f.
Proof. exact lshift_expand_arr_exact. Qed.
Print Assumptions C14_lshift_expand_arrays.
Theorem C14_lshift_expand_arrays_word_least : forall f codes n, 0 <= n -> 1 <= nw f -> Forall (in_range f) codes -> Exists (fun c => c <> 0) codes ->
  let f' := lshift_fmt ShExpand f codes n in
  nw f <= nw f' /\ (nw f < nw f' -> exists c, In c codes /\ ~ in_range {| sg := sg f; nw := nw f' - 1; nf := nf f |} (c * 2^n)).
Proof. exact lshift_expand_arr_word_least. Qed.
Print Assumptions C14_lshift_expand_arrays_word_least.
Example C14_arrays_example :
  exists w, fxp_lshift_arr ShExpand {| sg := true; nw := 4; nf := 1 |} [3; -8; 0] 70 = Ok ({| sg := true; nw := 74; nf := 1 |}, w) /\
    w_codes w = [3 * 2^70; -8 * 2^70; 0].
Proof. eexists. split; vm_compute; reflexivity. Qed.

(* x >> n in expand mode equals x / 2^n exactly (arrays of any length): the stored codes times
   2^(n-e) are the old codes and the fraction grew by e, so no bit is lost; min_pow2's loop is
   characterised by its invariant (the 2-adic valuation of the array) *)
Theorem C14_rshift_expand : forall f codes n fz cz, 0 <= n ->
  rshift_fmt_codes ShExpand f codes n = Ok (fz, cz) ->
  exists e, 0 <= e <= n /\ nf fz = nf f + e /\ nw fz = nw f + e /\ sg fz = sg f /\
    Forall2 (fun c z => z * 2^(n - e) = c) codes cz.
Proof. exact rshift_expand_exact. Qed.
Print Assumptions C14_rshift_expand.
Theorem C14_min_pow2_is_valuation : forall codes q, min_pow2 codes = Ok (Some q) ->
  0 <= q /\ Forall (fun c => c mod 2^q = 0) codes /\ ~ Forall (fun c => c mod 2^(q + 1) = 0) codes.
Proof. exact min_pow2_spec. Qed.
Print Assumptions C14_min_pow2_is_valuation.

(* trunc/keep mode: >> is the arithmetic shift floor(code / 2^n) in the unchanged format *)
Theorem C14_rshift_keep : forall f c n, 0 <= n -> 1 <= nw f -> in_range f c ->
  rshift_fmt_codes ShKeep f [c] n = Ok (f, [c / 2^n]) /\ in_range f (c / 2^n).
Proof. exact rshift_keep_floor. Qed.
Print Assumptions C14_rshift_keep.
(* trunc/keep mode: << is x * 2^n when representable, otherwise clamped into the range *)
Theorem C14_lshift_keep : forall f c n, 0 <= n -> 1 <= nw f -> nw f + n <= 62 -> in_range f c ->
  exists w, fxp_lshift ShKeep f c n = Ok (f, w) /\ w_codes w = [sat f (c * 2^n)] /\
    (in_range f (c * 2^n) -> w_codes w = [c * 2^n] /\ w_ovf w = false /\ w_unf w = false).
Proof. exact lshift_keep. Qed.
Print Assumptions C14_lshift_keep.

Example C14_nonvacuous :
  let f := {| sg := true; nw := 6; nf := 3 |} in
  in_range f (-12) /\ rshift_fmt_codes ShExpand f [-12; 20] 4 = Ok ({| sg := true; nw := 8; nf := 5 |}, [-3; 5]) /\
  rshift_fmt_codes ShKeep f [-13] 2 = Ok (f, [-4]) /\ lshift_fmt ShExpand f [-12] 3 = {| sg := true; nw := 8; nf := 3 |}.
Proof. cbv zeta. unfold in_range. repeat split; try (vm_compute; reflexivity); vm_compute; discriminate. Qed.
