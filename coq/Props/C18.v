(* C18 — extended precision: words of 64+ bits store and render integers bit-exactly.
   The object path of set_val is plain integer arithmetic in the model (Store.set_val_real with
   is_obj = true); the string codecs (C11) and the bitwise operators (C13) are proved for every
   word length, so they are restated here for wide words. *)
From Coq Require Import ZArith List Bool Lia.
From FxpVerif Require Import Spec NP Store Status ProofsCore ProofsStore ProofsWrap Strings ProofsStrings Bitwise ProofsBitwise.
Import ListNotations.
Open Scope Z_scope.

(* a Python integer given as a code (raw=True) or as an integer value (n_frac >= 0), for EVERY
   n_word >= 64, every integer, both overflow modes: bit-exact when in range, saturated or wrapped
   exactly otherwise, overflow and underflow flags exact *)
Theorem C18_store_python_int : forall f r o raw zs, 64 <= nw f -> (raw = true \/ 0 <= nf f) ->
  let cs := map (fun z => if raw then z else z * 2^(nf f)) zs in
  exists w, set_val_real f r o raw (AObj (map NI zs)) VInt = Ok w /\
    w_codes w = map (overflow o f) cs /\
    w_ovf w = existsb (fun c => cmax f <? c) cs /\ w_unf w = existsb (fun c => c <? cmin f) cs.
Proof. exact set_val_wide_ints. Qed.
Print Assumptions C18_store_python_int.
Theorem C18_in_range_is_exact : forall o f c, 1 <= nw f -> in_range f c -> overflow o f c = c.
Proof. exact overflow_id. Qed.
Print Assumptions C18_in_range_is_exact.

(* binary / hex strings in raw mode restore the code at every width *)
Theorem C18_bin_roundtrip : forall f c, 64 <= nw f -> in_range f c -> strbin2int (sg f) (nw f) (binary_repr (nw f) c) = Ok c.
Proof. intros f c Hw Hr. apply strbin2int_roundtrip; [destruct (sg f); lia|exact Hr]. Qed.
Print Assumptions C18_bin_roundtrip.
Theorem C18_hex_roundtrip : forall f c, 64 <= nw f -> in_range f c ->
  strhex2int (sg f) (nw f) (hex_nat (Z.to_nat ((nw f + 3) / 4)) (c mod 2^(nw f))) = Ok c.
Proof. intros f c Hw Hr. apply strhex2int_roundtrip; [destruct (sg f); lia|exact Hr]. Qed.
Print Assumptions C18_hex_roundtrip.

(* bitwise operators are exact at these widths *)
Theorem C18_bitwise : forall b fx cx cy r o, 64 <= nw fx ->
  exists w, fxp_bitwise b fx cx false 0 cy r o = Ok w /\
    w_codes w = [code_of_pattern fx (z_bop b (uimage (nw fx) cx) (uimage (nw fx) cy))] /\ w_ovf w = false /\ w_unf w = false.
Proof. intros b fx cx cy r o Hw. apply fxp_bitwise_spec. lia. Qed.
Print Assumptions C18_bitwise.

(* the extended-precision indicator is set exactly when n_word >= 64 *)
Theorem C18_extended_prec_indicator : forall f, st_extp (status_init f) = (64 <=? nw f).
Proof. reflexivity. Qed.
Print Assumptions C18_extended_prec_indicator.

Example C18_nonvacuous :
  let f := {| sg := true; nw := 72; nf := 36 |} in
  overflow Wrap f (2^71) = - 2^71 /\ overflow Saturate f (2^71) = 2^71 - 1 /\ in_range f (- 2^71) /\
  hex_nat 18 ((- 2^71) mod 2^72) = [56;48;48;48;48;48;48;48;48;48;48;48;48;48;48;48;48;48].
Proof. cbv zeta. unfold in_range. repeat split; try (vm_compute; reflexivity); vm_compute; discriminate. Qed.
