(* C08 — arithmetic into an imposed format equals the exact result quantized into it.
   Model: Arith.arith_repr / Arith.arith_raw into a target format ft under the modes (r, o)
   of the configuration the result carries; Arith.get_sizing for the sizing policies;
   Arith.unary_raw for - + abs. *)
From Coq Require Import ZArith List Bool.
From FxpVerif Require Import Spec SpecArith NP Store ProofsCore ProofsStore Arith ProofsArith ProofsImposed ProofsRawImposed ProofsExact ProofsExactSum.
Import ListNotations.
Open Scope Z_scope.

(* value ('repr') method, and every out_like route (which always uses it): for all operand
   formats of the domain, every imposed format up to 26 bits, all 10 governing mode pairs,
   arrays of any length: the result is Spec.quantize of the exact result, with its flags *)
Theorem C08_imposed_repr : forall op fx fy cxs cys ft r o,
  small_op fx -> small_op fy -> small_tgt ft -> length cxs = length cys ->
  Forall (in_range fx) cxs -> Forall (in_range fy) cys ->
  let exact := map (fun p => exact_op op (val_of_code fx (fst p)) (val_of_code fy (snd p))) (combine cxs cys) in
  arith_repr op fx cxs fy cys ft r o
  = Ok {| w_codes := map (quantize ft r o) exact; w_ovf := existsb (ovf_cond ft r) exact;
          w_unf := existsb (unf_cond ft r) exact; w_inacc := existsb (inacc_cond ft r o) exact |}.
Proof. exact imposed_repr. Qed.
Print Assumptions C08_imposed_repr.

(* integer-code ('raw', the default) method: the raw function rescales the operand codes to the
   imposed fraction length (by a float factor when it shrinks), NumPy combines them in the
   dtype its promotion rules give (int64, uint64 or float64), set_val(raw=True) rounds and
   overflows: same operands, same imposed formats, same modes, arrays of any positive
   length — again exactly the Spec's quantization of the exact result, all four fields *)
Theorem C08_imposed_raw : forall op fx fy cxs cys ft r o,
  small_op fx -> small_op fy -> small_tgt ft -> length cxs = length cys -> cxs <> [] ->
  Forall (in_range fx) cxs -> Forall (in_range fy) cys ->
  let exact := map (fun p => exact_op op (val_of_code fx (fst p)) (val_of_code fy (snd p))) (combine cxs cys) in
  arith_raw op fx cxs fy cys ft r o
  = Ok {| w_codes := map (quantize ft r o) exact; w_ovf := existsb (ovf_cond ft r) exact;
          w_unf := existsb (unf_cond ft r) exact; w_inacc := existsb (inacc_cond ft r o) exact |}.
Proof. exact imposed_raw. Qed.
Print Assumptions C08_imposed_raw.

(* beyond the small domain: operands of ANY width whose exact result needs more than 53 bits, imposed formats with fewer
   fraction bits than the exact result (the raw method then rescales with exact rationals): still the quantization of the
   exact result, all four fields (spec_wres is the record above) *)
Theorem C08_imposed_raw_wide_sum : forall op fx fy cxs cys ft r o,
  op <> OpMul -> 1 <= nw fx -> 1 <= nw fy -> 1 <= nw ft -> needs_exact_sum fx fy (nf ft) = true ->
  cxs <> [] -> length cxs = length cys -> Forall (in_range fx) cxs -> Forall (in_range fy) cys ->
  arith_raw op fx cxs fy cys ft r o
  = Ok (spec_wres ft r o (map (fun p => exact_codes op fx (fst p) fy (snd p)) (combine cxs cys))).
Proof. exact addsub_into_fewer_fraction_bits. Qed.
Print Assumptions C08_imposed_raw_wide_sum.
Theorem C08_imposed_raw_wide_product : forall fx fy cxs cys ft r o,
  wf_op fx -> wf_op fy -> 1 <= nw ft -> nf ft - nf fx - nf fy < 0 ->
  length cxs = length cys -> Forall (in_range fx) cxs -> Forall (in_range fy) cys ->
  existsb (fun p => 2^53 <=? Z.abs (fst p * snd p)) (combine cxs cys) = true ->
  arith_raw OpMul fx cxs fy cys ft r o
  = Ok (spec_wres ft r o (map (fun p => exact_codes OpMul fx (fst p) fy (snd p)) (combine cxs cys))).
Proof. exact mul_into_fewer_fraction_bits. Qed.
Print Assumptions C08_imposed_raw_wide_product.

(* hence both methods agree *)
Theorem C08_methods_agree : forall op fx fy cxs cys ft r o,
  small_op fx -> small_op fy -> small_tgt ft -> length cxs = length cys -> cxs <> [] ->
  Forall (in_range fx) cxs -> Forall (in_range fy) cys ->
  arith_raw op fx cxs fy cys ft r o = arith_repr op fx cxs fy cys ft r o.
Proof. exact raw_repr_agree. Qed.
Print Assumptions C08_methods_agree.

(* the formats produced by the sizing policies same / largest / smallest / optimal are
   covered by the theorem above *)
Theorem C08_sizing_policies_covered : forall sz op fx fy,
  small_op fx -> small_op fy -> n_int fx >= 0 -> n_int fy >= 0 ->
  1 <= nw (get_sizing sz op fx fy) -> small_tgt (get_sizing sz op fx fy).
Proof. exact sizing_small. Qed.
Print Assumptions C08_sizing_policies_covered.

(* integer-code ('raw') method with optimal sizing: exact at every width (from C07/C19) *)
Theorem C08_raw_optimal : forall op fx fy cxs cys r o,
  wf_op fx -> wf_op fy -> mul_pc_ok op fx fy -> length cxs = length cys -> cxs <> [] ->
  Forall (in_range fx) cxs -> Forall (in_range fy) cys ->
  let zs := map (fun p => exact_int op fx fy (fst p) (snd p)) (combine cxs cys) in
  exists w, arith_raw op fx cxs fy cys (grow op fx fy) r o = Ok w /\
    w_codes w = map (overflow o (grow op fx fy)) zs /\
    w_ovf w = existsb (fun z => cmax (grow op fx fy) <? z) zs /\ w_unf w = existsb (fun z => z <? cmin (grow op fx fy)) zs.
Proof. exact arith_optimal_model. Qed.
Print Assumptions C08_raw_optimal.

(* unary minus, plus and abs are exact whenever their result is representable *)
Theorem C08_unary : forall u fx c, 1 <= nw fx < 64 -> in_range fx c ->
  let res := match u with UNeg => - c | UPos => c | UAbs => Z.abs c end in
  in_range fx res ->
  exists w, unary_raw u fx [c] = Ok w /\ w_codes w = [res] /\ w_ovf w = false /\ w_unf w = false.
Proof. exact unary_exact. Qed.
Print Assumptions C08_unary.

Example C08_nonvacuous :
  let fx := {| sg := false; nw := 4; nf := 2 |} in
  small_op fx /\ small_tgt fx /\ in_range fx 1 /\ in_range fx 15 /\
  arith_repr OpMul fx [1] fx [15] fx Ceil Saturate = Ok {| w_codes := [4]; w_ovf := false; w_unf := false; w_inacc := true |} /\
  arith_raw OpMul fx [1] fx [15] fx Ceil Saturate = Ok {| w_codes := [4]; w_ovf := false; w_unf := false; w_inacc := true |}.
Proof. cbv zeta. unfold small_op, small_tgt, in_range. repeat split; try (vm_compute; reflexivity); cbn; discriminate. Qed.
