(* C07 — add, subtract, multiply with optimal sizing are exact and never overflow.
   Model: Arith.arith_raw (functions._add_raw/_sub_raw/_mul_raw with the _raw_cast guard over
   int64 / uint64 / float64 / object dtypes, then Fxp(val, raw=True) = Store.set_val_real). *)
From Coq Require Import ZArith List Bool.
From FxpVerif Require Import Spec SpecArith NP Store ProofsCore ProofsStore Arith ProofsArith.
Import ListNotations.
Open Scope Z_scope.

(* every pair of operand formats (any signedness mix, any n_frac <= n_word + 1, ANY word
   length), every pair of in-range codes, elementwise for arrays of any length: the result
   holds the exact integer exact_int, with no overflow / underflow flag.  The only exclusion
   is a difference of two unsigned operands (next theorem). *)
Theorem C07_add_sub_mul_exact : forall op fx fy cxs cys r o,
  wf_op fx -> wf_op fy -> mul_pc_ok op fx fy -> length cxs = length cys -> cxs <> [] ->
  Forall (in_range fx) cxs -> Forall (in_range fy) cys ->
  (op = OpSub -> sg fx || sg fy = true) ->
  exists w, arith_raw op fx cxs fy cys (grow op fx fy) r o = Ok w /\
    w_codes w = map (fun p => exact_int op fx fy (fst p) (snd p)) (combine cxs cys) /\
    w_ovf w = false /\ w_unf w = false.
Proof. exact arith_optimal_exact. Qed.
Print Assumptions C07_add_sub_mul_exact.

(* exact_int really is the exact mathematical result, read in the optimal format *)
Theorem C07_exact_int_is_exact : forall op fx fy cx cy,
  dy_eqb (val_of_code (grow op fx fy) (exact_int op fx fy cx cy))
         (exact_op op (val_of_code fx cx) (val_of_code fy cy)) = true.
Proof. exact exact_int_spec. Qed.
Print Assumptions C07_exact_int_is_exact.

(* the single exception: a difference of two unsigned operands is the exact difference
   quantized (saturated or wrapped) into the unsigned result format, with its flags *)
Theorem C07_unsigned_difference : forall fx fy cxs cys r o,
  wf_op fx -> wf_op fy -> length cxs = length cys -> cxs <> [] ->
  Forall (in_range fx) cxs -> Forall (in_range fy) cys ->
  let zs := map (fun p => exact_int OpSub fx fy (fst p) (snd p)) (combine cxs cys) in
  exists w, arith_raw OpSub fx cxs fy cys (grow OpSub fx fy) r o = Ok w /\
    w_codes w = map (overflow o (grow OpSub fx fy)) zs /\
    w_ovf w = existsb (fun z => cmax (grow OpSub fx fy) <? z) zs /\
    w_unf w = existsb (fun z => z <? cmin (grow OpSub fx fy)) zs.
Proof.
  intros fx fy cxs cys r o Hx Hy Hl Hn Hrx Hry.
  exact (arith_optimal_model OpSub fx fy cxs cys r o Hx Hy (fun H => ltac:(discriminate)) Hl Hn Hrx Hry).
Qed.
Print Assumptions C07_unsigned_difference.

(* never overflows: a bound lemma over ALL formats, not a corner enumeration *)
Theorem C07_no_overflow_addsub : forall op fx fy cx cy, op <> OpMul -> 1 <= nw fx -> 1 <= nw fy ->
  in_range fx cx -> in_range fy cy -> (op = OpSub -> sg fx || sg fy = true) ->
  in_range (grow op fx fy) (exact_int op fx fy cx cy).
Proof. exact addsub_in_grow. Qed.
Print Assumptions C07_no_overflow_addsub.
Theorem C07_no_overflow_mul : forall fx fy cx cy, 1 <= nw fx -> 1 <= nw fy -> in_range fx cx -> in_range fy cy ->
  in_range (grow OpMul fx fy) (exact_int OpMul fx fy cx cy).
Proof. exact mul_in_grow. Qed.
Print Assumptions C07_no_overflow_mul.

(* nested + - * expressions of any depth are exact *)
Theorem C07_tree : forall r o e, tree_ok e -> eval r o e = Ok (efmt e, eint e).
Proof. exact tree_exact. Qed.
Print Assumptions C07_tree.

Example C07_nonvacuous :
  let fx := {| sg := false; nw := 5; nf := 1 |} in let fy := {| sg := true; nw := 3; nf := 0 |} in
  wf_op fx /\ wf_op fy /\ in_range fx 31 /\ in_range fy (-4) /\
  grow OpSub fx fy = {| sg := true; nw := 7; nf := 1 |} /\ exact_int OpSub fx fy 31 (-4) = 39 /\
  arith_raw OpSub fx [31] fy [-4] (grow OpSub fx fy) Trunc Saturate
  = Ok {| w_codes := [39]; w_ovf := false; w_unf := false; w_inacc := false |}.
Proof. cbv zeta. unfold wf_op, in_range. repeat split; try (vm_compute; reflexivity); cbn; discriminate. Qed.
