(* C15 — NumPy reductions and linear algebra on fixed-point arrays are exact.
   Model: Reduce.fxp_sum / fxp_cumsum / fxp_prod / fxp_dot (growth rule, int64 accumulation or Python integers by result width,
   Fxp(val, raw=True)).  max, min, sort, clip, transpose, diagonal keep the operand's format and
   only select / rearrange codes (checked by the correspondence run). *)
From Coq Require Import ZArith List Bool Lia.
From FxpVerif Require Import Spec SpecArith NP Store ProofsCore ProofsStore ProofsArith Arith Reduce ProofsReduce ProofsCumprod ProofsReduceInto.
Import ListNotations.
Open Scope Z_scope.

(* sum (all elements or one slice along an axis; x.size drives the growth): exact, no flag, for EVERY word length (int64 / uint64
   accumulation below 64 result bits, Python integers from there on - functions._accum_cast) and
   ANY number of elements *)
Theorem C15_sum_exact : forall f total l r o, 1 <= nw f -> 1 <= total -> Z.of_nat (length l) <= total ->
  Forall (in_range f) l ->
  exists w, fxp_sum f total l r o = Ok (sum_fmt f total, w) /\ w_codes w = [zsum l] /\ w_ovf w = false /\ w_unf w = false.
Proof. exact fxp_sum_exact_any. Qed.
Print Assumptions C15_sum_exact.
(* never overflows, even when every element is at an extreme: bound lemmas for any length *)
Theorem C15_sum_no_overflow : forall f total l, 1 <= nw f -> Z.of_nat (length l) <= total -> 1 <= total ->
  Forall (in_range f) l -> in_range (sum_fmt f total) (zsum l).
Proof. exact sum_in_range. Qed.
Print Assumptions C15_sum_no_overflow.
Theorem C15_dot_no_overflow : forall fx fy xs ys, 1 <= nw fx -> 1 <= nw fy -> length xs = length ys -> (1 <= length xs)%nat ->
  Forall (in_range fx) xs -> Forall (in_range fy) ys ->
  in_range (dot_fmt fx fy (Z.of_nat (length xs))) (zsum (map (fun p => fst p * snd p) (combine xs ys))).
Proof. exact dot_in_range. Qed.
Print Assumptions C15_dot_no_overflow.
(* the int64 accumulator is the exact sum while count * bound stays below 2^63 *)
Theorem C15_accumulation_exact : forall l B, 0 <= B -> Forall (fun c => Z.abs c <= B) l -> Z.of_nat (length l) * B < 2^63 ->
  sum_i64 true l = zsum l.
Proof. exact sum_i64_exact. Qed.
Print Assumptions C15_accumulation_exact.

(* cumsum: every prefix sum, exact, no flag (same growth as sum) *)
Theorem C15_cumsum_exact : forall f total l r o, 1 <= nw f -> 1 <= total -> Z.of_nat (length l) <= total ->
  Forall (in_range f) l ->
  exists w, fxp_cumsum f total l r o = Ok (sum_fmt f total, w) /\ w_codes w = prefix_sums 0 l /\ w_ovf w = false /\ w_unf w = false.
Proof. exact fxp_cumsum_exact_any. Qed.
Print Assumptions C15_cumsum_exact.

(* prod: the exact product in a word `count` times as wide; it never overflows that word *)
Theorem C15_prod_no_overflow : forall f l, 1 <= nw f -> (1 <= length l)%nat -> Forall (in_range f) l ->
  in_range (prod_fmt f (Z.of_nat (length l))) (zprod l).
Proof. exact prod_in_range. Qed.
Print Assumptions C15_prod_no_overflow.
Theorem C15_prod_exact : forall f l r o, 1 <= nw f -> (1 <= length l)%nat -> Forall (in_range f) l ->
  exists w, fxp_prod f (Z.of_nat (length l)) l r o = Ok (prod_fmt f (Z.of_nat (length l)), w) /\
    w_codes w = [zprod l] /\ w_ovf w = false /\ w_unf w = false.
Proof. exact fxp_prod_exact_any. Qed.
Print Assumptions C15_prod_exact.

(* cumprod: every running product, expressed with the n * n_frac fraction bits of the result, exact and inside the optimal
   format (no flag), for result words up to 53 bits (the property's domain; the unsigned case travels as float64) *)
Theorem C15_cumprod_exact : forall f l r o, 1 <= nw f -> 0 <= nf f -> (1 <= length l)%nat ->
  nw (cumprod_fmt f (Z.of_nat (length l))) <= 53 -> Forall (in_range f) l ->
  exists w, fxp_cumprod f l r o = Ok (cumprod_fmt f (Z.of_nat (length l)), w) /\
    w_codes w = cumprod_spec (nf f) (Z.of_nat (length l)) 1 1 l /\ w_ovf w = false /\ w_unf w = false.
Proof. exact fxp_cumprod_exact. Qed.
Print Assumptions C15_cumprod_exact.
(* ... and the k-th of those codes denotes the product of the first k values *)
Theorem C15_cumprod_entry_value : forall p n k nfr, 0 <= nfr -> k <= n ->
  dy_eqb {| dm := p * 2^((n - k) * nfr); de := - (n * nfr) |} {| dm := p; de := - (k * nfr) |} = true.
Proof. exact cumprod_entry_value. Qed.
Print Assumptions C15_cumprod_entry_value.
Example C15_cumprod_nonvacuous :
  fxp_cumprod {| sg := true; nw := 4; nf := 1 |} [-8; -8; 3] Trunc Saturate
  = Ok ({| sg := true; nw := 12; nf := 3 |}, {| w_codes := [-32; 128; 192]; w_ovf := false; w_unf := false; w_inacc := false |}).
Proof. vm_compute. reflexivity. Qed.

(* dot (one entry of a vector or matrix product): the exact sum of the products *)
Theorem C15_dot_exact : forall fx fy xs ys r o, 1 <= nw fx -> 1 <= nw fy -> length xs = length ys -> (1 <= length xs)%nat ->
  Forall (in_range fx) xs -> Forall (in_range fy) ys ->
  exists w, fxp_dot fx fy xs ys r o = Ok (dot_fmt fx fy (Z.of_nat (length xs)), w) /\
    w_codes w = [zsum (map (fun p => fst p * snd p) (combine xs ys))] /\ w_ovf w = false /\ w_unf w = false.
Proof. exact fxp_dot_exact_any. Qed.
Print Assumptions C15_dot_exact.

(* trace: the sum of the diagonal, the word growing by ceil(log2(number of diagonal elements)):
   functions.trace is _trace_raw = np.trace(x.val) with that growth, i.e. the model fxp_sum on
   the diagonal with total := its length *)
Theorem C15_trace_exact : forall f d r o, 1 <= nw f -> (1 <= length d)%nat ->
  Forall (in_range f) d ->
  exists w, fxp_sum f (Z.of_nat (length d)) d r o = Ok (sum_fmt f (Z.of_nat (length d)), w) /\
    w_codes w = [zsum d] /\ w_ovf w = false /\ w_unf w = false.
Proof. intros f d r o Hw Hn Hr. apply fxp_sum_exact_any; try assumption; lia. Qed.
Print Assumptions C15_trace_exact.

(* sum / prod INTO a caller-chosen format with fewer fraction bits than the exact result has (out=, a sizing policy: the raw method), when
   the accumulated code needs more than 53 bits: the exact sum (product) is quantized ONCE into the target format by the target's
   rounding and overflow modes, with the Spec's flags - for every word length of the operand and of the target and any number of
   elements.  (The other branches of the same model - a non-negative shift, codes of at most 53 bits - are compared with the
   implementation on every run: stratum F of the check.) *)
Theorem C15_sum_into_fewer_fraction_bits : forall f total l ft r o,
  1 <= nw f -> 1 <= total -> Z.of_nat (length l) <= total -> Forall (in_range f) l ->
  1 <= nw ft -> nf ft - nf f < 0 -> 2^53 <= Z.abs (zsum l) ->
  fxp_sum_into f total l ft r o = Ok (spec_wres ft r o [ {| dm := zsum l; de := - nf f |} ]).
Proof. exact sum_into_fewer_fraction_bits. Qed.
Print Assumptions C15_sum_into_fewer_fraction_bits.
Theorem C15_prod_into_fewer_fraction_bits : forall f l ft r o,
  1 <= nw f -> (1 <= length l)%nat -> Forall (in_range f) l ->
  1 <= nw ft -> nf ft - Z.of_nat (length l) * nf f < 0 -> 2^53 <= Z.abs (zprod l) ->
  fxp_prod_into f (Z.of_nat (length l)) l ft r o = Ok (spec_wres ft r o [ {| dm := zprod l; de := - (Z.of_nat (length l) * nf f) |} ]).
Proof. exact prod_into_fewer_fraction_bits. Qed.
Print Assumptions C15_prod_into_fewer_fraction_bits.
(* sum INTO a format with at least as many fraction bits (signed operand, target n_frac below 64): the exact code zsum l * 2^k is stored
   raw - kept when the target holds it, clamped or wrapped otherwise - with exactly the overflow / underflow flags of that code
   ([int_wres]: w_codes = map (overflow o ft), w_ovf / w_unf = some code above cmax / below cmin), whatever its size *)
Theorem C15_sum_into_more_fraction_bits : forall f total l ft r o,
  sg f = true -> 1 <= nw f -> 1 <= total -> Z.of_nat (length l) <= total -> Forall (in_range f) l ->
  1 <= nw ft -> 0 <= nf ft - nf f -> nf ft < 64 ->
  exists w, fxp_sum_into f total l ft r o = Ok w /\ int_wres ft o [zsum l * 2^(nf ft - nf f)] w.
Proof. exact sum_into_more_fraction_bits. Qed.
Print Assumptions C15_sum_into_more_fraction_bits.
(* the same for an UNSIGNED operand: while the accumulation stays in uint64 (result word below 64 bits) the target word is below 64 bits too *)
Theorem C15_sum_into_more_fraction_bits_unsigned : forall f total l ft r o,
  sg f = false -> 1 <= nw f -> 1 <= total -> Z.of_nat (length l) <= total -> Forall (in_range f) l ->
  1 <= nw ft -> (clog2 total + nw f < 64 -> nw ft < 64) -> 0 <= nf ft - nf f -> nf ft < 64 ->
  exists w, fxp_sum_into f total l ft r o = Ok w /\ int_wres ft o [zsum l * 2^(nf ft - nf f)] w.
Proof. exact sum_into_more_fraction_bits_unsigned. Qed.
Print Assumptions C15_sum_into_more_fraction_bits_unsigned.
(* product of a signed operand into a format with at least as many fraction bits as the exact product has *)
Theorem C15_prod_into_more_fraction_bits : forall f l ft r o,
  sg f = true -> 1 <= nw f -> (1 <= length l)%nat -> Forall (in_range f) l ->
  1 <= nw ft -> 0 <= nf ft - Z.of_nat (length l) * nf f -> nf ft < 64 ->
  exists w, fxp_prod_into f (Z.of_nat (length l)) l ft r o = Ok w /\ int_wres ft o [zprod l * 2^(nf ft - Z.of_nat (length l) * nf f)] w.
Proof. exact prod_into_more_fraction_bits. Qed.
Print Assumptions C15_prod_into_more_fraction_bits.
Example C15_into_nonvacuous :
  let f := {| sg := true; nw := 60; nf := 8 |} in let ft := {| sg := true; nw := 64; nf := 2 |} in
  let l := [2^58 + 5; 2^58 + 77; -3] in
  (2^53 <=? Z.abs (zsum l)) = true /\ forallb (fun c => (cmin f <=? c) && (c <=? cmax f)) l = true /\
  w_codes (match fxp_sum_into f 3 l ft Around Saturate with Ok w => w | _ => {| w_codes := []; w_ovf := false; w_unf := false; w_inacc := false |} end) = [(2^59 + 79 + 32) / 64].
Proof. vm_compute. repeat split; reflexivity. Qed.
(* PARTIAL: max, min, sort, clip, transpose and diagonal (selections and permutations of the codes) and the accumulating functions
   writing into a caller-chosen format (out= / out_like=) are not stated as theorems; they are covered by the correspondence run. *)
Example C15_nonvacuous :
  let f := {| sg := true; nw := 4; nf := 1 |} in
  fxp_sum f 5 [-8; -8; -8; -8; -8] Trunc Saturate = Ok ({| sg := true; nw := 7; nf := 1 |}, {| w_codes := [-40]; w_ovf := false; w_unf := false; w_inacc := false |}) /\
  fxp_dot f f [-8; -8; -8] [-8; -8; -8] Trunc Saturate = Ok ({| sg := true; nw := 10; nf := 2 |}, {| w_codes := [192]; w_ovf := false; w_unf := false; w_inacc := false |}).
Proof. vm_compute. split; reflexivity. Qed.
