(* C03 — wrap overflow is exact two's-complement modular arithmetic.
   Statements only; proofs in ProofsCore.v / ProofsWrap.v.  The code-shaped function is
   Store.wrap_model (utils.wrap: mask with 2^n-1, then OR with -2^n above the sign bit). *)
From Coq Require Import ZArith List Bool.
From FxpVerif Require Import Spec SpecArith NP Store ProofsCore ProofsStore ProofsWrap Arith ProofsArith ProofsExact ProofsExactSum.
Import ListNotations.
Open Scope Z_scope.

(* for EVERY word length n >= 1 and EVERY integer x (so also 64 bits and more): the
   bit-mask implementation returns an in-range integer congruent to x modulo 2^n ... *)
Theorem C03_wrap_is_residue : forall f x, 1 <= nw f ->
  let w := wrap_model (sg f) (nw f) x in in_range f w /\ (w - x) mod 2^(nw f) = 0.
Proof. exact wrap_is_residue. Qed.
Print Assumptions C03_wrap_is_residue.

(* ... and that integer is unique *)
Theorem C03_unique : forall f x y, 1 <= nw f -> in_range f y -> (y - x) mod 2^(nw f) = 0 ->
  y = wrap_model (sg f) (nw f) x.
Proof. exact wrap_unique. Qed.
Print Assumptions C03_unique.

(* storing with overflow='wrap' in the core domain stores that residue of the rounded input *)
Theorem C03_store_wrap_floats : forall f r vs, core_fmt f -> Forall (core_dy f) vs ->
  exists w, set_val_real f r Wrap false (AF64 (map f64_of_core vs)) VFloat = Ok w /\
    w_codes w = map (fun v => wrap_res f (round_dy r (dy_scale (nf f) v))) vs.
Proof. intros f r vs Hf Hv. eexists. split; [exact (set_val_floats_core f r Wrap vs Hf Hv)|reflexivity]. Qed.
Print Assumptions C03_store_wrap_floats.

Theorem C03_store_wrap_ints : forall f r zs, core_fmt f -> Forall (core_int f) zs ->
  exists w, set_val_real f r Wrap false (AI64 zs) VInt = Ok w /\
    w_codes w = map (fun v => wrap_res f (round_dy r (dy_scale (nf f) v))) (map dy_of_Z zs).
Proof. intros f r zs Hf Hz. eexists. split; [exact (set_val_ints_core f r Wrap zs Hf Hz)|reflexivity]. Qed.
Print Assumptions C03_store_wrap_ints.

(* "behaves like an n_word-bit hardware register": wrapping is compatible with + - * *)
Theorem C03_ring_add : forall f a b, 1 <= nw f -> wrap_res f (a + b) = wrap_res f (wrap_res f a + wrap_res f b).
Proof. exact wrap_ring_add. Qed.
Print Assumptions C03_ring_add.
Theorem C03_ring_sub : forall f a b, 1 <= nw f -> wrap_res f (a - b) = wrap_res f (wrap_res f a - wrap_res f b).
Proof. exact wrap_ring_sub. Qed.
Print Assumptions C03_ring_sub.
Theorem C03_ring_mul : forall f a b, 1 <= nw f -> wrap_res f (a * b) = wrap_res f (wrap_res f a * wrap_res f b).
Proof. exact wrap_ring_mul. Qed.
Print Assumptions C03_ring_mul.

(* period: shifting the rounded input by a multiple of 2^n_word ... *)
Theorem C03_period_code : forall f c k, 1 <= nw f -> wrap_res f (c + k * 2^(nw f)) = wrap_res f c.
Proof. exact wrap_period_code. Qed.
Print Assumptions C03_period_code.

(* ... and shifting the (scaled) input m/2^j itself by k*2^n_word: unconditional for
   floor, ceil and around; for trunc/fix when the input is integral or does not change side *)
Theorem C03_period_input : forall f r m j k, 1 <= nw f -> 0 < j ->
  translation_ok r (k * 2^(nw f)) m j ->
  wrap_res f (round_dy r {| dm := m + k * 2^(nw f) * 2^j; de := - j |})
  = wrap_res f (round_dy r {| dm := m; de := - j |}).
Proof. exact store_period. Qed.
Print Assumptions C03_period_input.
Theorem C03_period_floor_ceil_around : forall f m j k, 1 <= nw f -> 0 < j ->
  translation_ok Floor (k * 2^(nw f)) m j /\ translation_ok Ceil (k * 2^(nw f)) m j /\
  translation_ok Around (k * 2^(nw f)) m j.
Proof. intros f m j k Hn Hj. split; [exact I|]. split; [exact I|]. apply even_mul_pow2. exact Hn. Qed.
Print Assumptions C03_period_floor_ceil_around.
(* the period sentence is NOT a consequence of the congruence for toward-zero rounding
   across zero: the Spec quantizer itself differs there (DESIGN.md, C03) *)
Theorem C03_period_trunc_not_a_consequence :
  exists f v k, 1 <= nw f /\
    quantize f Trunc Wrap {| dm := dm v + k * 2^(nw f) * 4; de := -2 |} <> quantize f Trunc Wrap v.
Proof. exact period_trunc_not_a_consequence. Qed.
Print Assumptions C03_period_trunc_not_a_consequence.

(* word lengths of 64 bits and more, Python integers of any size (object path) *)
Theorem C03_wide_words : forall f r raw zs, 64 <= nw f -> (raw = true \/ 0 <= nf f) ->
  let cs := map (fun z => if raw then z else z * 2^(nf f)) zs in
  exists w, set_val_real f r Wrap raw (AObj (map NI zs)) VInt = Ok w /\
    w_codes w = map (wrap_res f) cs /\
    w_ovf w = existsb (fun c => cmax f <? c) cs /\ w_unf w = existsb (fun c => c <? cmin f) cs.
Proof. intros f r raw zs. exact (set_val_wide_ints f r Wrap raw zs). Qed.
Print Assumptions C03_wide_words.

(* "storing arithmetic results with wrap behaves like an n_word-bit hardware register": the product of two operands of
   ANY width, of which some element needs more than 53 bits, stored into ANY format with fewer fraction bits than the
   product has (the register of C03 when o = Wrap): the exact product quantized, codes and flags, rounded once *)
Theorem C03_wide_product_into_register : forall fx fy cxs cys ft r o,
  wf_op fx -> wf_op fy -> 1 <= nw ft -> nf ft - nf fx - nf fy < 0 ->
  length cxs = length cys -> Forall (in_range fx) cxs -> Forall (in_range fy) cys ->
  existsb (fun p => 2^53 <=? Z.abs (fst p * snd p)) (combine cxs cys) = true ->
  arith_raw OpMul fx cxs fy cys ft r o
  = Ok (spec_wres ft r o (map (fun p => exact_codes OpMul fx (fst p) fy (snd p)) (combine cxs cys))).
Proof. exact mul_into_fewer_fraction_bits. Qed.
Print Assumptions C03_wide_product_into_register.

(* the same for sums and differences: operands of ANY width, a target with fewer fraction bits than an operand and a sum
   of more than 53 bits (functions._needs_exact_sum): the exact sum / difference quantized, codes and flags, rounded once *)
Theorem C03_wide_sum_into_register : forall op fx fy cxs cys ft r o,
  op <> OpMul -> 1 <= nw fx -> 1 <= nw fy -> 1 <= nw ft -> needs_exact_sum fx fy (nf ft) = true ->
  cxs <> [] -> length cxs = length cys -> Forall (in_range fx) cxs -> Forall (in_range fy) cys ->
  arith_raw op fx cxs fy cys ft r o
  = Ok (spec_wres ft r o (map (fun p => exact_codes op fx (fst p) fy (snd p)) (combine cxs cys))).
Proof. exact addsub_into_fewer_fraction_bits. Qed.
Print Assumptions C03_wide_sum_into_register.
Example C03_wide_sum_nonvacuous :
  let f := {| sg := true; nw := 60; nf := 20 |} in let t := {| sg := true; nw := 16; nf := 4 |} in
  needs_exact_sum f f (nf t) = true /\
  arith_raw OpSub f [2^58 + 2^15 + 1] f [- 2^58 + 1] t Floor Wrap
  = Ok {| w_codes := [wrap_model true 16 ((2^59 + 2^15) / 2^16)]; w_ovf := true; w_unf := false; w_inacc := true |}.
Proof. split; vm_compute; reflexivity. Qed.

Example C03_wide_product_nonvacuous :
  let f := {| sg := true; nw := 32; nf := 16 |} in
  arith_raw OpMul f [2^30 + 1] f [2^30 + 3] f Floor Wrap
  = Ok {| w_codes := [65536]; w_ovf := true; w_unf := false; w_inacc := true |}.
Proof. vm_compute. reflexivity. Qed.

Example C03_nonvacuous :
  let f := {| sg := true; nw := 72; nf := 0 |} in
  wrap_model true 72 (2^71) = - 2^71 /\ wrap_model true 72 (-(2^71) - 1) = 2^71 - 1 /\
  wrap_model false 5 (-1) = 31 /\ in_range f (wrap_model true 72 (3 * 2^72 + 5)).
Proof. vm_compute. intuition discriminate. Qed.
