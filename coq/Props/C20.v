(* C20 — objects are independent and inputs are never mutated.
   Model: Alias.v — every object is a record of four heap locations (configuration, status
   record, value buffer, callbacks list); every public derivation route allocates all of them
   fresh, except indexing, whose result views the parent's value buffer.  The allocation table
   itself is tied to the code by the correspondence run (`is`, np.shares_memory, behavioural
   independence under mutation, for every route). *)
From Coq Require Import Arith List Bool.
From FxpVerif Require Import Alias ProofsAlias.
Import ListNotations.

(* separation invariant, by induction over histories of derivations of ANY length: private
   locations are unique to their object; two buffers coincide exactly within a view family *)
Theorem C20_separation_invariant : forall rs, inv (run rs).
Proof. exact run_inv. Qed.
Print Assumptions C20_separation_invariant.

(* hence a mutation of one object (config change, flag-raising write or reset, callbacks change,
   in-place value write) is invisible to every other object, the one exception being an in-place
   value write between an object and a view of it (x[i][j] = v writes through to x) *)
Theorem C20_independent : forall rs i j oi oj m,
  nth_error (h_objs (run rs)) i = Some oi -> nth_error (h_objs (run rs)) j = Some oj -> i <> j ->
  In (written oi m) (locs oj) -> m = MValueInPlace /\ o_family oi = o_family oj.
Proof. exact independence. Qed.
Print Assumptions C20_independent.

(* non-vacuity: x, y = x[i], z = y[j], w fresh: y and z view x's buffer, w shares nothing *)
Example C20_nonvacuous :
  let h := run [RFresh; RView 0; RView 1; RFresh] in
  map o_buf (h_objs h) = [2; 2; 2; 14] /\ map o_family (h_objs h) = [0; 0; 0; 3] /\ map o_st (h_objs h) = [1; 5; 9; 13].
Proof. vm_compute. repeat split; reflexivity. Qed.
