(* C12 — dtype strings and formats determine each other in every notation.
   Model: Dtype.render_fxp / render_q / get_dtype and Dtype.parse_dtype (a hand-written matcher
   standing for the two regular expressions of _parseformatstr, applied after casefold). *)
From Coq Require Import ZArith List Bool String.
From FxpVerif Require Import Spec Dtype ProofsDtype.
Open Scope Z_scope.

(* constructing with dtype=x.dtype reproduces x's format: for EVERY n_word >= 0, EVERY n_frac
   (negative and oversized included), with and without the complex suffix *)
Theorem C12_fxp_roundtrip : forall f cx, 0 <= nw f -> parse_dtype (render_fxp f cx) = Some (sg f, nw f, nf f, cx).
Proof. exact fxp_roundtrip. Qed.
Print Assumptions C12_fxp_roundtrip.
(* Q / UQ notation m.n denotes n_word = m + n with the sign bit counted in m; round trip whenever m >= 0 *)
Theorem C12_q_roundtrip : forall f, 0 <= nw f - nf f -> parse_dtype (render_q f) = Some (sg f, nw f, nf f, false).
Proof. exact q_roundtrip. Qed.
Print Assumptions C12_q_roundtrip.
(* parsing is case-insensitive *)
Theorem C12_case_insensitive : forall s, parse_dtype (casefold s) = parse_dtype s.
Proof. exact parse_case_insensitive. Qed.
Print Assumptions C12_case_insensitive.
(* get_dtype(notation) renders the notation it is asked for, whatever the configured default *)
Theorem C12_get_dtype : forall n conf f cx, get_dtype (Some n) conf f cx = match n with NQ => render_q f | NFxp => render_fxp f cx end.
Proof. exact get_dtype_asked. Qed.
Print Assumptions C12_get_dtype.

Example C12_nonvacuous :
  render_fxp {| sg := true; nw := 58; nf := 66 |} true = "fxp-s58/66-complex"%string /\
  parse_dtype "FXP-S58/66-Complex" = Some (true, 58, 66, true) /\ parse_dtype "uq3.5" = Some (false, 8, 5, false) /\
  parse_dtype "S8.3" = Some (true, 11, 3, false) /\ render_q {| sg := true; nw := 16; nf := -2 |} = "Q18.-2"%string.
Proof. vm_compute. repeat split; reflexivity. Qed.
