(* C05 — rounding contracts: direction, error bound, idempotence, monotonicity.
   The contracts are stated on the stored code q of a non-overflowing scaled input
   m / 2^k WITHOUT mentioning the reference quantizer on the right-hand side, so they also
   guard Spec.round_dy (the oracle of C01).  By C01 the model's stored code is
   overflow (round_dy ...), which is round_dy itself when no overflow occurs. *)
From Coq Require Import ZArith List Bool.
From FxpVerif Require Import Spec NP Store ProofsCore ProofsStore ProofsRound.
Import ListNotations.
Open Scope Z_scope.

Theorem C05_floor : forall m k, 0 < k ->
  let q := round_dy Floor {| dm := m; de := - k |} in q * 2^k <= m < (q + 1) * 2^k.
Proof. exact floor_contract. Qed.
Print Assumptions C05_floor.
Theorem C05_ceil : forall m k, 0 < k ->
  let q := round_dy Ceil {| dm := m; de := - k |} in (q - 1) * 2^k < m <= q * 2^k.
Proof. exact ceil_contract. Qed.
Print Assumptions C05_ceil.
Theorem C05_trunc_fix : forall m k, 0 < k -> forall r, r = Trunc \/ r = Fix ->
  let q := round_dy r {| dm := m; de := - k |} in
  Z.abs q * 2^k <= Z.abs m < (Z.abs q + 1) * 2^k /\ 0 <= q * m.
Proof. exact trunc_contract. Qed.
Print Assumptions C05_trunc_fix.
Theorem C05_around : forall m k, 0 < k ->
  let q := round_dy Around {| dm := m; de := - k |} in
  2 * Z.abs (m - q * 2^k) <= 2^k /\ (2 * Z.abs (m - q * 2^k) = 2^k -> Z.even q = true).
Proof. exact around_contract. Qed.
Print Assumptions C05_around.
Theorem C05_error_below_lsb : forall m k, 0 < k -> forall r,
  let q := round_dy r {| dm := m; de := - k |} in Z.abs (m - q * 2^k) < 2^k.
Proof. exact error_below_lsb. Qed.
Print Assumptions C05_error_below_lsb.
Theorem C05_integral_input_exact : forall r m e, 0 <= e -> round_dy r {| dm := m; de := e |} = m * 2^e.
Proof. exact round_dy_int. Qed.
Print Assumptions C05_integral_input_exact.

(* every representable value is stored unchanged, with no flag, in all ten mode pairs *)
Theorem C05_idempotent : forall f r o c, 1 <= nw f -> in_range f c ->
  let v := val_of_code f c in
  quantize f r o v = c /\ ovf_cond f r v = false /\ unf_cond f r v = false /\ inacc_cond f r o v = false.
Proof. exact representable_fixed. Qed.
Print Assumptions C05_idempotent.

(* quantization under saturate is monotone (inputs written over a common exponent) *)
Theorem C05_monotone : forall f r m1 m2 e, m1 <= m2 ->
  quantize f r Saturate {| dm := m1; de := e |} <= quantize f r Saturate {| dm := m2; de := e |}.
Proof. exact quantize_monotone. Qed.
Print Assumptions C05_monotone.

(* ... and for any two inputs whatever their exponents: v1 <= v2 implies q(v1) <= q(v2) *)
Theorem C05_monotone_any : forall f r a b, dy_leb a b = true ->
  quantize f r Saturate a <= quantize f r Saturate b.
Proof. exact quantize_monotone_gen. Qed.
Print Assumptions C05_monotone_any.

(* and these statements are about what the model of set_val stores (C01) *)
Theorem C05_model_stores_rounded : forall f r o vs, core_fmt f -> Forall (core_dy f) vs ->
  exists w, set_val_real f r o false (AF64 (map f64_of_core vs)) VFloat = Ok w /\
    w_codes w = map (fun v => overflow o f (round_dy r (dy_scale (nf f) v))) vs.
Proof. intros f r o vs Hf Hv. eexists. split; [exact (set_val_floats_core f r o vs Hf Hv)|reflexivity]. Qed.
Print Assumptions C05_model_stores_rounded.

Example C05_nonvacuous :
  round_dy Around {| dm := 5; de := -1 |} = 2 /\ round_dy Around {| dm := 7; de := -1 |} = 4 /\
  round_dy Trunc {| dm := -7; de := -1 |} = -3 /\ round_dy Floor {| dm := -7; de := -1 |} = -4 /\
  round_dy Ceil {| dm := -7; de := -1 |} = -3.
Proof. vm_compute. intuition reflexivity. Qed.
