(* C13 — bitwise operators act on the n_word-bit two's-complement word.
   Model: Bitwise.fxp_bitwise / fxp_invert (Python-integer bit operations on the n-bit images,
   utils.twos_complement_repr for signed results, set_val(raw=True)).  uimage n c = c mod 2^n is
   the n-bit two's-complement pattern of code c. *)
From Coq Require Import ZArith List Bool.
From FxpVerif Require Import Spec NP Store ProofsCore Bitwise ProofsBitwise.
Import ListNotations.
Open Scope Z_scope.

(* x & y, x | y, x ^ y (y: an Fxp of the same word length, of either signedness, or an integer
   mask), for EVERY word length: the result is the in-range code of x's format whose pattern is
   the AND / OR / XOR of the two patterns, stored with no flag *)
Theorem C13_and_or_xor : forall b fx cx cy r o, 1 <= nw fx ->
  exists w, fxp_bitwise b fx cx false 0 cy r o = Ok w /\
    w_codes w = [code_of_pattern fx (z_bop b (uimage (nw fx) cx) (uimage (nw fx) cy))] /\ w_ovf w = false /\ w_unf w = false.
Proof. exact fxp_bitwise_spec. Qed.
Print Assumptions C13_and_or_xor.
Theorem C13_pattern_of_result : forall b fx cx cy, 1 <= nw fx ->
  let u := z_bop b (uimage (nw fx) cx) (uimage (nw fx) cy) in
  bitwise_raw b fx cx cy = code_of_pattern fx u /\ in_range fx (bitwise_raw b fx cx cy) /\
  uimage (nw fx) (bitwise_raw b fx cx cy) = u.
Proof. exact bitwise_raw_spec. Qed.
Print Assumptions C13_pattern_of_result.

Theorem C13_not : forall fx cx r o, 1 <= nw fx -> in_range fx cx ->
  exists w, fxp_invert fx cx r o = Ok w /\
    w_codes w = [code_of_pattern fx (2^(nw fx) - 1 - uimage (nw fx) cx)] /\ w_ovf w = false /\ w_unf w = false.
Proof. exact fxp_invert_spec. Qed.
Print Assumptions C13_not.
Theorem C13_not_involutive : forall fx cx, 1 <= nw fx -> in_range fx cx -> invert_raw fx (invert_raw fx cx) = cx.
Proof. exact invert_involutive. Qed.
Print Assumptions C13_not_involutive.
Theorem C13_not_signed : forall fx cx, 1 <= nw fx -> sg fx = true -> in_range fx cx -> invert_raw fx cx = - cx - 1.
Proof. exact invert_signed_neg. Qed.
Print Assumptions C13_not_signed.
(* De Morgan's laws, at every width *)
Theorem C13_de_morgan : forall fx cx cy, 1 <= nw fx -> in_range fx cx -> in_range fx cy ->
  invert_raw fx (bitwise_raw BAnd fx cx cy) = bitwise_raw BOr fx (invert_raw fx cx) (invert_raw fx cy) /\
  invert_raw fx (bitwise_raw BOr fx cx cy) = bitwise_raw BAnd fx (invert_raw fx cx) (invert_raw fx cy).
Proof. exact demorgan. Qed.
Print Assumptions C13_de_morgan.
Theorem C13_word_mismatch_rejected : forall b fx cx nwy cy r o, nw fx <> nwy -> fxp_bitwise b fx cx true nwy cy r o = Exc ValueError.
Proof. exact mismatch_rejected. Qed.
Print Assumptions C13_word_mismatch_rejected.

(* arrays of codes on either or both sides (fix b8389df): equal shapes are paired position by position, a scalar object is paired
   with every element; every pair gives the code of x's format whose pattern is the AND / OR / XOR of the two patterns; ~ acts
   on every element.  Any word length, any array length. *)
Theorem C13_arrays_and_or_xor : forall b fx cxs cys ps r o, 1 <= nw fx -> pair_codes cxs cys = Some ps ->
  exists w, fxp_bitwise_arr b fx cxs false 0 cys r o = Ok w /\
    w_codes w = map (fun p => code_of_pattern fx (z_bop b (uimage (nw fx) (fst p)) (uimage (nw fx) (snd p)))) ps /\
    w_ovf w = false /\ w_unf w = false.
Proof. exact fxp_bitwise_arr_spec. Qed.
Print Assumptions C13_arrays_and_or_xor.
Theorem C13_arrays_not : forall fx cxs r o, 1 <= nw fx -> Forall (in_range fx) cxs ->
  exists w, fxp_invert_arr fx cxs r o = Ok w /\
    w_codes w = map (fun c => code_of_pattern fx (2^(nw fx) - 1 - uimage (nw fx) c)) cxs /\ w_ovf w = false /\ w_unf w = false.
Proof. exact fxp_invert_arr_spec. Qed.
Print Assumptions C13_arrays_not.
Theorem C13_arrays_pairing :
  (forall xs ys, length xs = length ys -> pair_codes xs ys = Some (combine xs ys)) /\
  (forall x ys, pair_codes [x] ys = Some (map (fun y => (x, y)) ys)).
Proof. split; [exact pair_codes_same | exact pair_codes_scalar_left]. Qed.
Print Assumptions C13_arrays_pairing.

Example C13_arrays_nonvacuous :
  exists w, fxp_bitwise_arr BAnd {| sg := true; nw := 8; nf := 4 |} [1; -2; 3; -128] true 8 [15; -16; -86; -1] Trunc Saturate = Ok w /\
            w_codes w = [1; -16; 2; -128].
Proof. eexists. vm_compute. split; reflexivity. Qed.

Example C13_nonvacuous :
  let f := {| sg := true; nw := 100; nf := 3 |} in
  in_range f (- 2^99) /\ bitwise_raw BXor f (- 2^99) (2^99 - 1) = -1 /\ invert_raw f (- 2^99) = 2^99 - 1 /\
  bitwise_raw BAnd {| sg := false; nw := 5; nf := 0 |} 29 (-4) = 28.
Proof. cbv zeta. unfold in_range. repeat split; try (vm_compute; reflexivity); vm_compute; discriminate. Qed.
