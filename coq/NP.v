(* NP.v — explicit, executable model of the Python / NumPy primitives that fxpmath
   calls.  MODELLED, NOT VERIFIED: these definitions are written from the NumPy /
   CPython documentation and from probing, and are validated against the real
   interpreter by harness/np_layer.py on every run (DESIGN.md 4.4, 6). *)
From Coq Require Import ZArith List Bool Lia.
From FxpVerif Require Import Spec.
Import ListNotations.
Open Scope Z_scope.

(* ---------- IEEE-754 binary64 as dyadics ---------- *)
Inductive f64 := Fin (m e : Z) | Inf (neg : bool) | NaN.

Definition bitlen (m : Z) : Z := if m =? 0 then 0 else Z.log2 (Z.abs m) + 1.

(* correctly rounded (nearest, ties to even) image of m * 2^e *)
Definition rnd64 (m e : Z) : f64 :=
  let sh := Z.max (bitlen m - 53) (-1074 - e) in
  if sh <=? 0 then (if bitlen m + e <=? 1024 then Fin m e else Inf (m <? 0))
  else let q := rhe m sh in
       if bitlen q + (e + sh) <=? 1024 then Fin q (e + sh) else Inf (m <? 0).

Definition fits53 (m e : Z) : Prop := bitlen m <= 53 /\ -1074 <= e /\ bitlen m + e <= 1024.

Definition f64_of_dy (v : dy) : f64 := rnd64 (dm v) (de v).
Definition f64_of_Z (z : Z) : f64 := rnd64 z 0.          (* float(int), int64 -> float64 *)
Definition f64_zero : f64 := Fin 0 0.

Definition f64_neg (x : f64) : f64 :=
  match x with Fin m e => Fin (- m) e | Inf s => Inf (negb s) | NaN => NaN end.
Definition f64_abs (x : f64) : f64 :=
  match x with Fin m e => Fin (Z.abs m) e | Inf _ => Inf false | NaN => NaN end.
Definition f64_is_zero (x : f64) : bool := match x with Fin m _ => m =? 0 | _ => false end.
Definition f64_sign_neg (x : f64) : bool := match x with Fin m _ => m <? 0 | Inf s => s | NaN => false end.

Definition f64_mul (a b : f64) : f64 :=
  match a, b with
  | NaN, _ | _, NaN => NaN
  | Fin m1 e1, Fin m2 e2 => rnd64 (m1 * m2) (e1 + e2)
  | Inf s, y | y, Inf s => if f64_is_zero y then NaN else Inf (xorb s (f64_sign_neg y))
  end.
(* x * 2^k for any integer k: python float * (int | float) power of two *)
Definition f64_mul_pow2 (x : f64) (k : Z) : f64 :=
  match x with Fin m e => rnd64 m (e + k) | _ => x end.

Definition f64_add (a b : f64) : f64 :=
  match a, b with
  | NaN, _ | _, NaN => NaN
  | Fin m1 e1, Fin m2 e2 =>
      let e := Z.min e1 e2 in rnd64 (m1 * 2^(e1 - e) + m2 * 2^(e2 - e)) e
  | Inf s1, Inf s2 => if Bool.eqb s1 s2 then Inf s1 else NaN
  | Inf s, _ | _, Inf s => Inf s
  end.
Definition f64_sub (a b : f64) : f64 := f64_add a (f64_neg b).

(* correctly rounded quotient: long division with a sticky bit *)
Definition f64_div (a b : f64) : f64 :=
  match a, b with
  | NaN, _ | _, NaN => NaN
  | Fin m1 e1, Fin m2 e2 =>
      if m2 =? 0 then (if m1 =? 0 then NaN else Inf (m1 <? 0))
      else
        let s := Z.max 0 (112 + bitlen m2 - bitlen m1) in
        let n := Z.abs m1 * 2^s in let d := Z.abs m2 in
        let q := n / d in let r := n mod d in
        let q' := 2 * q + (if r =? 0 then 0 else 1) in
        let sgn := if xorb (m1 <? 0) (m2 <? 0) then -1 else 1 in
        rnd64 (sgn * q') (e1 - e2 - s - 1)
  | Inf s, Fin m _ => Inf (xorb s (m <? 0))
  | Fin _ _, Inf _ => Fin 0 0
  | Inf _, Inf _ => NaN
  end.

(* np.around / floor / ceil / fix / trunc on a float64 (exact: the integer nearest by
   the mode to a double is a double) *)
Definition np_round (r : rmode) (x : f64) : f64 :=
  match x with Fin m e => Fin (round_dy r {| dm := m; de := e |}) 0 | _ => x end.

Definition f64_to_dy (x : f64) : option dy :=
  match x with Fin m e => Some {| dm := m; de := e |} | _ => None end.

(* comparisons are exact on finite values *)
Definition f64_cmp (a b : f64) : option comparison :=
  match a, b with
  | NaN, _ | _, NaN => None
  | Fin m1 e1, Fin m2 e2 =>
      let e := Z.min e1 e2 in Some (Z.compare (m1 * 2^(e1 - e)) (m2 * 2^(e2 - e)))
  | Inf s1, Inf s2 => Some (if Bool.eqb s1 s2 then Eq else if s1 then Lt else Gt)
  | Inf s, _ => Some (if s then Lt else Gt)
  | _, Inf s => Some (if s then Gt else Lt)
  end.
Definition f64_eqb a b := match f64_cmp a b with Some Eq => true | _ => false end.
Definition f64_ltb a b := match f64_cmp a b with Some Lt => true | _ => false end.
Definition f64_leb a b := match f64_cmp a b with Some Lt | Some Eq => true | _ => false end.
Definition f64_gtb a b := f64_ltb b a.
Definition f64_geb a b := f64_leb b a.

(* integer value of a finite double toward zero (C cast), no range check *)
Definition f64_trunc_Z (x : f64) : option Z :=
  match x with
  | Fin m e => Some (if 0 <=? e then m * 2^e else Z.quot m (2^(- e)))
  | _ => None end.
(* ndarray.astype(int64) of a float64: defined only inside the int64 range *)
Definition astype_i64 (x : f64) : option Z :=
  match f64_trunc_Z x with
  | Some v => if (- 2^63 <=? v) && (v <? 2^63) then Some v else None
  | None => None end.
(* floor of a finite double as an integer *)
Definition f64_floor_Z (x : f64) : option Z :=
  match x with
  | Fin m e => Some (if 0 <=? e then m * 2^e else m / 2^(- e))
  | _ => None end.

(* np.floor_divide / np.remainder on float64, Python float // and % :
   modelled by the exact floor quotient (valid whenever the exact results are
   representable, which every in-domain use guarantees) *)
Definition f64_floordiv (a b : f64) : f64 :=
  match a, b with
  | Fin m1 e1, Fin m2 e2 =>
      if m2 =? 0 then NaN else
      let e := Z.min e1 e2 in
      rnd64 ((m1 * 2^(e1 - e)) / (m2 * 2^(e2 - e))) 0
  | _, _ => NaN end.
Definition f64_mod (a b : f64) : f64 :=
  match a, b with
  | Fin m1 e1, Fin m2 e2 =>
      if m2 =? 0 then NaN else
      let e := Z.min e1 e2 in
      rnd64 ((m1 * 2^(e1 - e)) mod (m2 * 2^(e2 - e))) e
  | _, _ => NaN end.

(* ---------- machine integers ---------- *)
Definition wrap_i64 (z : Z) : Z := (z + 2^63) mod 2^64 - 2^63.
Definition wrap_u64 (z : Z) : Z := z mod 2^64.
Definition fits_i64 (z : Z) : bool := (- 2^63 <=? z) && (z <? 2^63).
Definition fits_u64 (z : Z) : bool := (0 <=? z) && (z <? 2^64).

(* int(ceil(log2(n))) for n >= 1 *)
Definition clog2 (n : Z) : Z := Z.log2_up n.
(* int(ceil(log2(|v| + 0.5))) as computed in float64; equals the bit length for
   1 <= |v| < 2^47, and -1 for v = 0 *)
Definition np_bitlen_half (v : Z) : Z := if v =? 0 then -1 else bitlen v.

(* ---------- elements of Python-object arrays: ints and floats ---------- *)
(* NR: a fractions.Fraction whose denominator is a power of two (the only rationals the code
   creates: utils.scale_raw / set_val multiply integers by Fraction(1, 1 << k)) *)
Inductive num := NI (z : Z) | NF (x : f64) | NR (q : dy).

Definition num_to_f64 (a : num) : f64 := match a with NI z => f64_of_Z z | NF x => x | NR q => f64_of_dy q end.
(* exact operand of a rational operation: ints and rationals, not floats *)
Definition num_exact (a : num) : option dy :=
  match a with NI z => Some (dy_of_Z z) | NR q => Some q | NF _ => None end.
Definition num_mul (a b : num) : num :=
  match a, b with
  | NI x, NI y => NI (x * y)
  | NF _, _ | _, NF _ => NF (f64_mul (num_to_f64 a) (num_to_f64 b))
  | _, _ => match num_exact a, num_exact b with
            | Some u, Some v => NR (dy_mul u v)
            | _, _ => NF (f64_mul (num_to_f64 a) (num_to_f64 b)) end
  end.
(* Python compares int, float and Fraction exactly *)
Definition num_dy (a : num) : option dy :=
  match a with NI z => Some (dy_of_Z z) | NF x => f64_to_dy x | NR q => Some q end.
Definition num_ltb (a b : num) : bool :=
  match a, b with
  | NI x, NI y => x <? y
  | NF (Inf s), NI _ => s
  | NI _, NF (Inf s) => negb s
  | _, _ => match num_dy a, num_dy b with
            | Some u, Some v => dy_ltb u v
            | _, _ => f64_ltb (num_to_f64 a) (num_to_f64 b) end
  end.
(* int(x) *)
Definition num_int (a : num) : option Z :=
  match a with NI z => Some z | NF x => f64_trunc_Z x | NR q => Some (round_dy Trunc q) end.

(* ---------- outcomes ---------- *)
Inductive exc := OverflowError | ValueError | TypeError | ZeroDivisionError | OtherError.
Inductive outcome (A : Type) := Ok (a : A) | Exc (e : exc) | Unmodelled.
Arguments Ok {A}. Arguments Exc {A}. Arguments Unmodelled {A}.
Definition bind {A B} (x : outcome A) (k : A -> outcome B) : outcome B :=
  match x with Ok a => k a | Exc e => Exc e | Unmodelled => Unmodelled end.
Definition of_option {A} (x : option A) : outcome A :=
  match x with Some a => Ok a | None => Unmodelled end.
Fixpoint mapM {A B} (k : A -> outcome B) (l : list A) : outcome (list B) :=
  match l with
  | [] => Ok []
  | a :: t => bind (k a) (fun b => bind (mapM k t) (fun bs => Ok (b :: bs)))
  end.
