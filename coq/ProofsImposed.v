(* ProofsImposed.v — C08: arithmetic into an imposed format (any sizing policy, out,
   out_like, constants) = the exact result quantized into that format, by the repr method
   and by the raw method; hence the two methods agree. *)
From Coq Require Import ZArith List Bool Lia ZifyBool.
From FxpVerif Require Import Spec SpecArith NP Store ProofsCore ProofsStore ProofsConvert Arith ProofsArith.
Import ListNotations.
Open Scope Z_scope.
Ltac Zify.zify_post_hook ::= Z.to_euclidean_division_equations.

(* C08's operand domain: 2 <= n_word <= 12 (1 allowed), 0 <= n_frac <= n_word - sign bit;
   the imposed format: anything up to 26 bits with 0 <= n_frac <= n_word (covers every sizing
   policy of such operands and every out / out_like target of the domain) *)
Definition small_op (f : fmt) : Prop := 1 <= nw f <= 12 /\ 0 <= nf f <= nw f.
Definition small_tgt (f : fmt) : Prop := 1 <= nw f <= 26 /\ 0 <= nf f <= nw f.

Lemma small_code f c : small_op f -> in_range f c -> Z.abs c <= 2^12.
Proof.
  intros (Hw & _) Hr. destruct (code_mag f c ltac:(lia) Hr) as (Hs & Hu).
  assert (2^(nw f - 1) <= 2^12) by (apply pow2_le; lia). assert (2^(nw f) <= 2^12) by (apply pow2_le; lia).
  destruct (sg f); [specialize (Hs eq_refl)|specialize (Hu eq_refl)]; lia.
Qed.
Lemma small_core f : small_tgt f -> core_fmt f.
Proof. intros (Hw & Hf). unfold core_fmt. lia. Qed.

(* the exact result as a dyadic, and its size *)
Lemma exact_codes_shape op fx cx fy cy : small_op fx -> small_op fy -> in_range fx cx -> in_range fy cy ->
  let v := exact_codes op fx cx fy cy in Z.abs (dm v) <= 2^25 /\ -24 <= de v <= 0.
Proof.
  intros Hx Hy Hrx Hry. pose proof (small_code fx cx Hx Hrx) as Bx. pose proof (small_code fy cy Hy Hry) as By.
  destruct Hx as (Hwx & Hfx), Hy as (Hwy & Hfy). cbv zeta. unfold exact_codes, val_of_code.
  assert (E12: 2^12 = 4096) by reflexivity. assert (E25: 2^25 = 4096 * 4096 * 2) by reflexivity.
  destruct op; cbn [exact_op dy_add dy_sub dy_mul dy_align dm de].
  - set (e := Z.min (- nf fx) (- nf fy)).
    assert (0 <= - nf fx - e <= 12) by (unfold e; lia). assert (0 <= - nf fy - e <= 12) by (unfold e; lia).
    assert (0 < 2^(- nf fx - e) <= 2^12) by (split; [apply pow2_pos; lia | apply pow2_le; lia]).
    assert (0 < 2^(- nf fy - e) <= 2^12) by (split; [apply pow2_pos; lia | apply pow2_le; lia]).
    split; [nia | unfold e; lia].
  - set (e := Z.min (- nf fx) (- nf fy)).
    assert (0 <= - nf fx - e <= 12) by (unfold e; lia). assert (0 <= - nf fy - e <= 12) by (unfold e; lia).
    assert (0 < 2^(- nf fx - e) <= 2^12) by (split; [apply pow2_pos; lia | apply pow2_le; lia]).
    assert (0 < 2^(- nf fy - e) <= 2^12) by (split; [apply pow2_pos; lia | apply pow2_le; lia]).
    split; [nia | unfold e; lia].
  - split; [nia | lia].
Qed.

Lemma exact_core op fx cx fy cy ft : small_op fx -> small_op fy -> small_tgt ft -> in_range fx cx -> in_range fy cy ->
  core_dy ft (exact_codes op fx cx fy cy).
Proof.
  intros Hx Hy (Hwt & Hft) Hrx Hry. destruct (exact_codes_shape op fx cx fy cy Hx Hy Hrx Hry) as (Hm & He).
  set (v := exact_codes op fx cx fy cy) in *. unfold core_dy.
  assert (2^25 < 2^53) by (apply pow2_lt; lia). assert (E62: 2^62 = 2^25 * 2^37) by reflexivity.
  repeat split; try lia.
  - intros H0. replace (de v) with 0 by lia. rewrite Z.pow_0_r. lia.
  - intros H0. assert (2^(de v + nf ft) <= 2^26) by (apply pow2_le; lia). assert (2^26 < 2^37) by (apply pow2_lt; lia).
    assert (0 < 2^(de v + nf ft)) by (apply pow2_pos; lia). nia.
Qed.

Lemma rnd_small m e : Z.abs m <= 2^25 -> -24 <= e <= 0 -> rnd64 m e = Fin m e.
Proof.
  intros Hm He. apply rnd64_exact. assert (2^25 < 2^53) by (apply pow2_lt; lia).
  pose proof (bitlen_le m 53 ltac:(lia) ltac:(lia)). pose proof (bitlen_nonneg m). unfold fits53. lia.
Qed.

(* the float the repr function computes is exactly the exact result *)
Lemma repr_value op fx cx fy cy : small_op fx -> small_op fy -> in_range fx cx -> in_range fy cy ->
  f64_op op (get_val_f64 fx cx) (get_val_f64 fy cy) = f64_of_core (exact_codes op fx cx fy cy).
Proof.
  intros Hx Hy Hrx Hry. pose proof (small_code fx cx Hx Hrx) as Bx. pose proof (small_code fy cy Hy Hry) as By.
  destruct (exact_codes_shape op fx cx fy cy Hx Hy Hrx Hry) as (Hm & He). cbv zeta in Hm, He.
  assert (2^12 < 2^53) by (apply pow2_lt; lia).
  rewrite !get_val_exact; try lia.
  2: { destruct Hy as (? & ?). unfold core_fmt. lia. }
  2: { destruct Hx as (? & ?). unfold core_fmt. lia. }
  unfold f64_of_core.
  destruct op; cbn [f64_op f64_add f64_sub f64_neg f64_mul].
  - exact (rnd_small _ _ Hm He).
  - replace (cx * 2^(- nf fx - Z.min (- nf fx) (- nf fy)) + - cy * 2^(- nf fy - Z.min (- nf fx) (- nf fy)))
      with (cx * 2^(- nf fx - Z.min (- nf fx) (- nf fy)) - cy * 2^(- nf fy - Z.min (- nf fx) (- nf fy))) by lia.
    exact (rnd_small _ _ Hm He).
  - exact (rnd_small _ _ Hm He).
Qed.

Theorem imposed_repr op fx fy cxs cys ft r o :
  small_op fx -> small_op fy -> small_tgt ft -> length cxs = length cys ->
  Forall (in_range fx) cxs -> Forall (in_range fy) cys ->
  arith_repr op fx cxs fy cys ft r o
  = Ok (spec_wres ft r o (map (fun p => exact_codes op fx (fst p) fy (snd p)) (combine cxs cys))).
Proof.
  intros Hx Hy Ht Hlen Hrx Hry. unfold arith_repr.
  assert (Hin: forall p, In p (combine cxs cys) -> in_range fx (fst p) /\ in_range fy (snd p)).
  { intros [a b] Hp. rewrite Forall_forall in Hrx, Hry. split; [apply Hrx; exact (in_combine_l _ _ _ _ Hp) | apply Hry; exact (in_combine_r _ _ _ _ Hp)]. }
  rewrite (map2M_pairs _ (fun p => f64_of_core (exact_codes op fx (fst p) fy (snd p)))).
  2: exact Hlen.
  2: { intros p Hp. destruct (Hin p Hp) as (Ha & Hb). rewrite repr_value by assumption. reflexivity. }
  cbn [bind]. rewrite <- (map_map (fun p => exact_codes op fx (fst p) fy (snd p)) f64_of_core).
  apply set_val_floats_core; [apply small_core; exact Ht|].
  rewrite Forall_map. apply Forall_forall. intros p Hp. destruct (Hin p Hp) as (Ha & Hb). apply exact_core; assumption.
Qed.

(* every sizing policy of small operands yields a format the theorem covers *)
Lemma sizing_small sz op fx fy : small_op fx -> small_op fy -> n_int fx >= 0 -> n_int fy >= 0 ->
  1 <= nw (get_sizing sz op fx fy) -> small_tgt (get_sizing sz op fx fy).
Proof.
  intros (Hwx & Hfx) (Hwy & Hfy) Hix Hiy. intros Hone; revert Hone. pose proof (n_int_width fx). pose proof (n_int_width fy).
  unfold small_tgt, get_sizing, grow, mkfmt.
  destruct sz, op; cbn [nw nf sg]; destruct (sg fx), (sg fy); cbn [orb]; lia.
Qed.

(* unary minus, plus, abs: exact whenever the result is representable in the operand's format *)
Theorem unary_exact u fx c : 1 <= nw fx < 64 -> in_range fx c ->
  let res := match u with UNeg => - c | UPos => c | UAbs => Z.abs c end in
  in_range fx res ->
  exists w, unary_raw u fx [c] = Ok w /\ w_codes w = [res] /\ w_ovf w = false /\ w_unf w = false.
Proof.
  intros Hw Hr. cbv zeta. set (res := match u with UNeg => - c | UPos => c | UAbs => Z.abs c end). intros Hres.
  assert (Hb: Z.abs res < 2^63).
  { unfold in_range, cmin, cmax in Hres. assert (2^(nw fx - 1) <= 2^62) by (apply pow2_le; lia).
    assert (2^(nw fx) <= 2^63) by (apply pow2_le; lia). assert (0 < 2^(nw fx - 1)) by (apply pow2_pos; lia).
    assert (2^62 < 2^63) by (apply pow2_lt; lia). destruct (sg fx); lia. }
  unfold unary_raw. rewrite storage_small by lia. fold res.
  assert (Hfin: forall w, int_wres fx Saturate [res] w -> w_codes w = [res] /\ w_ovf w = false /\ w_unf w = false).
  { intros w (Hc & Ho & Hu). cbn [map existsb] in *. rewrite Hc, Ho, Hu. unfold in_range in Hres.
    cbn [overflow]. rewrite sat_id by exact Hres. repeat split; lia. }
  destruct (sg fx) eqn:Es; cbn [map].
  - rewrite wrap_i64_small by exact Hb. cbn [arr_of all_MI fold_right bind fst snd].
    destruct (set_val_raw_i64 fx Trunc Saturate [res] ltac:(lia) ltac:(constructor; [exact Hb|constructor])) as (w & Hs & Hi).
    exists w. split; [exact Hs|]. apply Hfin. exact Hi.
  - cbn [arr_of all_MU fold_right bind fst snd].
    destruct (set_val_raw_u64 fx Trunc Saturate [res] Hw ltac:(constructor; [lia|constructor])) as (w & Hs & Hi).
    exists w. split; [exact Hs|]. apply Hfin. exact Hi.
Qed.
