(* Alias.v — location-based model of which mutable state each public route allocates or
   shares (C20).  An object is a record of four heap locations: configuration, status record,
   value buffer, callbacks list (plus a ghost "view family").  Allocation table (read from
   objects.py / functions.py, confirmed by the correspondence run through `is` and
   np.shares_memory):
     constructor, like=, class template, deepcopy(), like(), Fxp(x), + - * / // %, unary - + abs,
     ~ & | ^, << >>, NumPy-dispatched functions        -> every location fresh
     x[index] (__getitem__)                             -> fresh config / status / callbacks,
                                                           the value buffer is a VIEW of x's *)
From Coq Require Import Arith List Bool Lia.
Import ListNotations.

Record obj := { o_cfg : nat; o_st : nat; o_buf : nat; o_cbs : nat; o_family : nat }.
Record heap := { h_next : nat; h_objs : list obj }.
Inductive route := RFresh | RView (parent : nat).

Definition heap0 : heap := {| h_next := 0; h_objs := [] |}.
Definition alloc (h : heap) (r : route) : heap :=
  let n := h_next h in let idx := length (h_objs h) in
  match r with
  | RFresh => {| h_next := n + 4; h_objs := h_objs h ++ [{| o_cfg := n; o_st := n + 1; o_buf := n + 2; o_cbs := n + 3; o_family := idx |}] |}
  | RView p =>
      match nth_error (h_objs h) p with
      | Some po => {| h_next := n + 4; h_objs := h_objs h ++ [{| o_cfg := n; o_st := n + 1; o_buf := o_buf po; o_cbs := n + 3; o_family := o_family po |}] |}
      | None => h       (* indexing a non-existent object: no effect *)
      end
  end.
Definition run (rs : list route) : heap := fold_left alloc rs heap0.

(* the locations an observation of an object depends on *)
Definition locs (o : obj) : list nat := [o_cfg o; o_st o; o_buf o; o_cbs o].
(* the location a mutation writes *)
Inductive mutation := MConfig | MStatus | MValueInPlace | MCallbacks.
Definition written (o : obj) (m : mutation) : nat :=
  match m with MConfig => o_cfg o | MStatus => o_st o | MValueInPlace => o_buf o | MCallbacks => o_cbs o end.
