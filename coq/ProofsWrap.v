(* ProofsWrap.v — C03/C18: wrap is the unique in-range residue; it is a ring
   homomorphism image (n-bit register); period laws; the object (wide-word) path. *)
From Coq Require Import ZArith List Bool Lia ZifyBool.
From FxpVerif Require Import Spec NP Store ProofsCore ProofsStore.
Import ListNotations.
Open Scope Z_scope.
Ltac Zify.zify_post_hook ::= Z.to_euclidean_division_equations.

Lemma wrap_is_residue f x : 1 <= nw f ->
  let w := wrap_model (sg f) (nw f) x in in_range f w /\ (w - x) mod 2^(nw f) = 0.
Proof.
  intros Hn. cbv zeta. rewrite wrap_model_res by exact Hn.
  split; [apply wrap_res_in_range | apply wrap_res_congr]; exact Hn.
Qed.

Lemma wrap_unique f x y : 1 <= nw f -> in_range f y -> (y - x) mod 2^(nw f) = 0 ->
  y = wrap_model (sg f) (nw f) x.
Proof. intros. rewrite wrap_model_res by assumption. apply wrap_res_unique; assumption. Qed.

(* two integers have the same wrapped image iff they are congruent *)
Lemma mod0_exists a M : 0 < M -> a mod M = 0 -> exists k, a = k * M.
Proof. intros HM H. apply Z.mod_divide in H; [|lia]. destruct H as [k Hk]. exists k. lia. Qed.
Lemma mod0_of_mul k M : 0 < M -> (k * M) mod M = 0.
Proof. intros. apply Z.mod_mul. lia. Qed.

Lemma wrap_res_congr_eq f x y : 1 <= nw f -> (x - y) mod 2^(nw f) = 0 -> wrap_res f x = wrap_res f y.
Proof.
  intros Hn Hc. apply wrap_res_unique; [exact Hn | apply wrap_res_in_range; exact Hn|].
  assert (HM: 0 < 2^(nw f)) by (apply pow2_pos; lia).
  destruct (mod0_exists _ _ HM (wrap_res_congr f x Hn)) as [k1 H1].
  destruct (mod0_exists _ _ HM Hc) as [k2 H2].
  replace (wrap_res f x - y) with ((k1 + k2) * 2^(nw f)) by lia. apply mod0_of_mul; exact HM.
Qed.

Lemma wrap_res_rep f x : 1 <= nw f -> exists k, wrap_res f x = x + k * 2^(nw f).
Proof.
  intros Hn. assert (HM: 0 < 2^(nw f)) by (apply pow2_pos; lia).
  destruct (mod0_exists _ _ HM (wrap_res_congr f x Hn)) as [k Hk]. exists k. lia.
Qed.

Lemma wrap_ring_add f a b : 1 <= nw f -> wrap_res f (a + b) = wrap_res f (wrap_res f a + wrap_res f b).
Proof.
  intros Hn. assert (HM: 0 < 2^(nw f)) by (apply pow2_pos; lia).
  destruct (wrap_res_rep f a Hn) as [ka Ha]. destruct (wrap_res_rep f b Hn) as [kb Hb].
  apply wrap_res_congr_eq; [exact Hn|]. rewrite Ha, Hb.
  replace (a + b - (a + ka * 2^(nw f) + (b + kb * 2^(nw f)))) with ((- ka - kb) * 2^(nw f)) by lia.
  apply mod0_of_mul; exact HM.
Qed.
Lemma wrap_ring_sub f a b : 1 <= nw f -> wrap_res f (a - b) = wrap_res f (wrap_res f a - wrap_res f b).
Proof.
  intros Hn. assert (HM: 0 < 2^(nw f)) by (apply pow2_pos; lia).
  destruct (wrap_res_rep f a Hn) as [ka Ha]. destruct (wrap_res_rep f b Hn) as [kb Hb].
  apply wrap_res_congr_eq; [exact Hn|]. rewrite Ha, Hb.
  replace (a - b - (a + ka * 2^(nw f) - (b + kb * 2^(nw f)))) with ((kb - ka) * 2^(nw f)) by lia.
  apply mod0_of_mul; exact HM.
Qed.
Lemma wrap_ring_mul f a b : 1 <= nw f -> wrap_res f (a * b) = wrap_res f (wrap_res f a * wrap_res f b).
Proof.
  intros Hn. assert (HM: 0 < 2^(nw f)) by (apply pow2_pos; lia).
  destruct (wrap_res_rep f a Hn) as [ka Ha]. destruct (wrap_res_rep f b Hn) as [kb Hb].
  apply wrap_res_congr_eq; [exact Hn|]. rewrite Ha, Hb. set (M := 2^(nw f)) in *.
  replace (a * b - (a + ka * M) * (b + kb * M)) with ((- (a * kb) - ka * b - ka * kb * M) * M) by ring.
  apply mod0_of_mul; exact HM.
Qed.

Lemma wrap_period_code f c k : 1 <= nw f -> wrap_res f (c + k * 2^(nw f)) = wrap_res f c.
Proof.
  intros Hn. assert (HM: 0 < 2^(nw f)) by (apply pow2_pos; lia).
  apply wrap_res_congr_eq; [exact Hn|].
  replace (c + k * 2^(nw f) - c) with (k * 2^(nw f)) by lia. apply mod0_of_mul; exact HM.
Qed.

(* rounding commutes with translation by an integer K (an even one for around);
   toward-zero rounding does so only when the input is integral or stays on one side of 0 *)
Definition translation_ok (r : rmode) (K m j : Z) : Prop :=
  match r with
  | Floor | Ceil => True
  | Around => Z.even K = true
  | Trunc | Fix => m mod 2^j = 0 \/ (0 <= m /\ 0 <= m + K * 2^j) \/ (m <= 0 /\ m + K * 2^j <= 0)
  end.

Lemma round_dy_translate r m j K : 0 < j -> translation_ok r K m j ->
  round_dy r {| dm := m + K * 2^j; de := - j |} = round_dy r {| dm := m; de := - j |} + K.
Proof.
  intros Hj Hok. unfold round_dy. cbn [dm de]. replace (0 <=? - j) with false by lia.
  replace (- - j) with j by lia. assert (Hd: 0 < 2^j) by (apply pow2_pos; lia). set (d := 2^j) in *.
  assert (Hdiv: (m + K * d) / d = m / d + K) by (apply Z.div_add; lia).
  assert (Hmod: (m + K * d) mod d = m mod d) by (apply Z.mod_add; lia).
  assert (Hquot_exact: forall a, a mod d = 0 -> Z.quot a d = a / d).
  { intros a Ha. pose proof (Z.div_mod a d ltac:(lia)) as E.
    assert (Ea: a = (a / d) * d) by lia. rewrite Ea at 1. apply Z.quot_mul. lia. }
  assert (Hquot_neg: forall a, a <= 0 -> Z.quot a d = - ((- a) / d)).
  { intros a Ha. replace a with (- - a) at 1 by lia. rewrite Z.quot_opp_l by lia.
    rewrite Z.quot_div_nonneg by lia. reflexivity. }
  assert (Htz: (m mod d = 0 \/ (0 <= m /\ 0 <= m + K * d) \/ (m <= 0 /\ m + K * d <= 0)) ->
               Z.quot (m + K * d) d = Z.quot m d + K).
  { intros [H0|[[H1 H2]|[H1 H2]]].
    - rewrite !Hquot_exact by lia. lia.
    - rewrite !Z.quot_div_nonneg by lia. lia.
    - rewrite !Hquot_neg by lia. replace (- (m + K * d)) with (- m + (- K) * d) by lia.
      rewrite Z.div_add by lia. lia. }
  destruct r; cbn [translation_ok] in Hok.
  - apply Htz. exact Hok.
  - apply Htz. exact Hok.
  - lia.
  - replace (- (m + K * d)) with (- m + (- K) * d) by lia. rewrite Z.div_add by lia. lia.
  - unfold rhe. fold d. rewrite Hdiv, Hmod.
    destruct (2 * (m mod d) <? d); [reflexivity|]. destruct (d <? 2 * (m mod d)); [lia|].
    rewrite Z.even_add, Hok. destruct (Z.even (m / d)); cbn; lia.
Qed.

Lemma store_period f r m j k : 1 <= nw f -> 0 < j -> translation_ok r (k * 2^(nw f)) m j ->
  wrap_res f (round_dy r {| dm := m + k * 2^(nw f) * 2^j; de := - j |})
  = wrap_res f (round_dy r {| dm := m; de := - j |}).
Proof.
  intros Hn Hj Hok. rewrite round_dy_translate by assumption. apply wrap_period_code; exact Hn.
Qed.
Lemma even_mul_pow2 k n : 1 <= n -> Z.even (k * 2^n) = true.
Proof. intros. apply Z.even_spec. exists (k * 2^(n-1)). rewrite (pow2_double n) by lia. ring. Qed.

(* toward-zero rounding across zero: the period sentence is not a consequence of the
   congruence — the Spec itself differs (s8/0, trunc: 0.25 stores 0, 0.25-256 stores 1) *)
Lemma period_trunc_not_a_consequence :
  exists f v k, 1 <= nw f /\
    quantize f Trunc Wrap {| dm := dm v + k * 2^(nw f) * 4; de := -2 |} <> quantize f Trunc Wrap v.
Proof.
  exists {| sg := true; nw := 8; nf := 0 |}, {| dm := 1; de := -2 |}, (-1). split; [cbn; lia|].
  vm_compute. discriminate.
Qed.

(* ---------- the object path: words of 64 bits and more, Python integers ---------- *)
Lemma elem_pipe_obj_int f r o raw z : 64 <= nw f -> (raw = true \/ 0 <= nf f) ->
  let c := if raw then z else z * 2^(nf f) in
  exists ia, elem_pipe f r o raw true (NI z) =
    Ok {| e_code := overflow o f c; e_gt := cmax f <? c; e_lt := c <? cmin f; e_inacc := ia |}.
Proof.
  intros Hn Hraw. cbv zeta. unfold elem_pipe. cbn [negb].
  assert (Hs: scale_elem f raw false (NI z) = Ok (NI (if raw then z else z * 2^(nf f)))).
  { unfold scale_elem. destruct raw; [reflexivity|]. destruct Hraw as [Hc|Hc]; [discriminate|].
    replace (0 <=? nf f) with true by lia. reflexivity. }
  rewrite Hs. cbn [bind round_elem]. set (c := if raw then z else z * 2^(nf f)).
  assert (Ho: overflow_elem f o true (NI c) = Ok (overflow o f c)).
  { unfold overflow_elem, elem_gt, elem_lt.
    pose proof (range_width f ltac:(lia)) as Hrw. assert (0 < 2^(nw f)) by (apply pow2_pos; lia).
    destruct o; cbn [overflow].
    - unfold sat. destruct (cmax f <? c) eqn:E1; [f_equal; lia|].
      destruct (c <? cmin f) eqn:E2; [f_equal; lia|]. cbn [elem_to_int num_int]. f_equal. lia.
    - rewrite orb_true_r. cbn [elem_to_int num_int bind]. f_equal.
      apply wrap_model_res. lia. }
  rewrite Ho. cbn [bind elem_gt elem_lt]. eexists. reflexivity.
Qed.

Lemma mapM_exists {A B} (k : A -> outcome B) (P : A -> B -> Prop) xs :
  (forall x, In x xs -> exists b, k x = Ok b /\ P x b) ->
  exists bs, mapM k xs = Ok bs /\ Forall2 P xs bs.
Proof.
  induction xs as [|x xs IH]; intros H.
  - exists []. split; [reflexivity|constructor].
  - destruct (H x (or_introl eq_refl)) as (b & Hb & Pb).
    destruct IH as (bs & Hbs & Pbs). { intros y Hy. apply H. right. exact Hy. }
    exists (b :: bs). split; [|constructor; assumption]. cbn [mapM]. rewrite Hb. cbn [bind]. rewrite Hbs. reflexivity.
Qed.

Theorem set_val_wide_ints f r o raw zs : 64 <= nw f -> (raw = true \/ 0 <= nf f) ->
  let cs := map (fun z => if raw then z else z * 2^(nf f)) zs in
  exists w, set_val_real f r o raw (AObj (map NI zs)) VInt = Ok w /\
    w_codes w = map (overflow o f) cs /\
    w_ovf w = existsb (fun c => cmax f <? c) cs /\
    w_unf w = existsb (fun c => c <? cmin f) cs.
Proof.
  intros Hn Hraw. cbv zeta.
  assert (Hobj: obj_path f raw (AObj (map NI zs)) VInt = true) by (unfold obj_path; replace (64 <=? nw f) with true by lia; rewrite orb_true_r; reflexivity).
  assert (Hxq: exact_factor f raw (AObj (map NI zs)) = false).
  { destruct Hraw as [-> | Hnf]; [apply exact_factor_raw | apply exact_factor_nf; exact Hnf]. }
  rewrite (set_val_real_eq _ _ _ _ _ _ _ Hobj Hxq). cbn [arr_nums bind].
  set (g := fun z : Z => if raw then z else z * 2^(nf f)).
  destruct (mapM_exists (elem_pipe f r o raw true)
              (fun x b => exists z, x = NI z /\ e_code b = overflow o f (g z) /\ e_gt b = (cmax f <? g z) /\ e_lt b = (g z <? cmin f))
              (map NI zs)) as (bs & Hbs & HF).
  { intros x Hx. apply in_map_iff in Hx. destruct Hx as (z & <- & _).
    destruct (elem_pipe_obj_int f r o raw z Hn Hraw) as (ia & Hia). eexists. split; [exact Hia|].
    exists z. cbn. auto. }
  rewrite Hbs. cbn [bind]. eexists. split; [reflexivity|]. cbn [w_codes w_ovf w_unf].
  clear Hbs Hobj Hxq. revert bs HF. induction zs as [|z zs IH]; intros bs HF; inversion HF; subst; cbn [map existsb].
  - auto.
  - destruct H1 as (z' & Hz' & Hc & Hg & Hl). injection Hz' as <-.
    destruct (IH _ H3) as (I1 & I2 & I3). rewrite Hc, Hg, Hl, I1, I2, I3. auto.
Qed.
