(* ProofsDiv.v — C09: the division family.  Spec-level laws of the reference codes
   (floor quotient within one LSB and exact when representable, never overflowing the
   optimal format; floor-division and modulo exact, reconstruction identity, sign of the
   modulo), and the raw integer path of the model for operands of equal signedness. *)
From Coq Require Import ZArith List Bool Lia ZifyBool.
From FxpVerif Require Import Spec SpecArith NP Store ProofsCore ProofsStore ProofsConvert Arith ProofsArith Div.
Import ListNotations.
Open Scope Z_scope.
Ltac Zify.zify_post_hook ::= Z.to_euclidean_division_equations.

(* ---------- true division: floor of the exactly scaled quotient ---------- *)
(* z = floor(a*2^k / b): z*b <= a*2^k < (z+1)*b for b > 0 (mirrored for b < 0):
   the stored quotient is below the exact one by less than one LSB *)
Lemma truediv_floor_bounds fx a fy b : b <> 0 ->
  let n := a * 2^(truediv_k fx fy) in let z := truediv_floor fx a fy b in
  (0 < b -> z * b <= n < (z + 1) * b) /\ (b < 0 -> (z + 1) * b < n <= z * b).
Proof. intros Hb. cbv zeta. unfold truediv_floor. set (n := a * 2^(truediv_k fx fy)). split; intros; nia. Qed.

Lemma truediv_exact fx a fy b : b <> 0 -> truediv_exactb fx a fy b = true ->
  truediv_floor fx a fy b * b = a * 2^(truediv_k fx fy).
Proof. unfold truediv_exactb, truediv_floor. intros Hb H. set (n := a * 2^(truediv_k fx fy)) in *. nia. Qed.

Lemma truediv_k_eq fx fy : truediv_k fx fy = nw fy - (if sg fy then 1 else 0).
Proof. unfold truediv_k, grow_truediv, mkfmt. cbn [nf]. pose proof (n_int_width fy). lia. Qed.

(* with optimal sizing the quotient never overflows (all formats) *)
Lemma truediv_in_range fx a fy b : 1 <= nw fx -> 1 <= nw fy -> in_range fx a -> in_range fy b -> b <> 0 ->
  in_range (grow_truediv fx fy) (truediv_floor fx a fy b).
Proof.
  intros Hwx Hwy Hra Hrb Hb. unfold truediv_floor. rewrite truediv_k_eq.
  set (k := nw fy - (if sg fy then 1 else 0)). assert (Hk: 0 <= k) by (unfold k; destruct (sg fy); lia).
  assert (Pk: 0 < 2^k) by (apply pow2_pos; lia).
  destruct (code_mag fx a Hwx Hra) as (Sa & Ua).
  pose proof (n_int_width fx) as Nx. pose proof (n_int_width fy) as Ny.
  unfold in_range, cmin, cmax, grow_truediv, mkfmt. cbn [sg nw nf].
  set (n := a * 2^k).
  assert (Hq: Z.abs (n / b) <= Z.abs n).
  { destruct (Z_lt_le_dec 0 b); destruct (Z_lt_le_dec 0 n); nia. }
  destruct (sg fx) eqn:Esx, (sg fy) eqn:Esy; cbn [orb].
  - (* signed / signed *) specialize (Sa eq_refl).
    replace (1 + (n_int fx + nf fy + 1) + (nf fx + n_int fy) - 1) with ((nw fx - 1) + k + 1) by (unfold k; lia).
    rewrite Z.pow_add_r, pow2_split, Z.pow_1_r by (try lia).
    assert (Z.abs n <= 2^(nw fx - 1) * 2^k) by (unfold n; rewrite Z.abs_mul, (Z.abs_eq (2^k)) by lia; nia).
    assert (0 < 2^(nw fx - 1)) by (apply pow2_pos; lia). nia.
  - specialize (Sa eq_refl).
    replace (1 + (n_int fx + nf fy + 1) + (nf fx + n_int fy) - 1) with ((nw fx - 1) + k + 1) by (unfold k; lia).
    rewrite Z.pow_add_r, pow2_split, Z.pow_1_r by (try lia).
    assert (Z.abs n <= 2^(nw fx - 1) * 2^k) by (unfold n; rewrite Z.abs_mul, (Z.abs_eq (2^k)) by lia; nia).
    assert (0 < 2^(nw fx - 1)) by (apply pow2_pos; lia). nia.
  - specialize (Ua eq_refl).
    replace (1 + (n_int fx + nf fy + 1) + (nf fx + n_int fy) - 1) with (nw fx + k + 1) by (unfold k; lia).
    rewrite Z.pow_add_r, pow2_split, Z.pow_1_r by (try lia).
    assert (Z.abs n < 2^(nw fx) * 2^k) by (unfold n; rewrite Z.abs_mul, (Z.abs_eq (2^k)), (Z.abs_eq a) by lia; nia).
    assert (0 < 2^(nw fx)) by (apply pow2_pos; lia). nia.
  - (* unsigned / unsigned *) specialize (Ua eq_refl).
    destruct (code_mag fy b Hwy Hrb) as (_ & Ub). specialize (Ub Esy).
    replace (0 + (n_int fx + nf fy + 0) + (nf fx + n_int fy)) with (nw fx + k) by (unfold k; lia).
    rewrite pow2_split by lia. assert (0 <= n) by (unfold n; nia). assert (0 < 2^(nw fx)) by (apply pow2_pos; lia).
    assert (n < 2^(nw fx) * 2^k) by (unfold n; nia). split; [apply Z.div_pos; lia|].
    assert (n / b <= n) by (apply Z.div_le_upper_bound; nia). lia.
Qed.

(* ---------- floor division and modulo ---------- *)
Definition aligned (fx : fmt) (a : Z) (fy : fmt) (b : Z) : Z * Z :=
  let nfr := Z.max (nf fx) (nf fy) in (a * 2^(nfr - nf fx), b * 2^(nfr - nf fy)).

Lemma floordiv_code_aligned fx a fy b :
  floordiv_code fx a fy b = fst (aligned fx a fy b) / snd (aligned fx a fy b).
Proof.
  unfold floordiv_code, dy_floor_div, dy_align, val_of_code, aligned. cbn [dm de fst snd].
  replace (Z.min (- nf fx) (- nf fy)) with (- Z.max (nf fx) (nf fy)) by lia.
  replace (- nf fx - - Z.max (nf fx) (nf fy)) with (Z.max (nf fx) (nf fy) - nf fx) by lia.
  replace (- nf fy - - Z.max (nf fx) (nf fy)) with (Z.max (nf fx) (nf fy) - nf fy) by lia. reflexivity.
Qed.

(* (x // y) * y + x % y == x, on the aligned integers; the modulo takes the divisor's sign *)
Lemma reconstruct fx a fy b : b <> 0 ->
  let '(A, B) := aligned fx a fy b in
  floordiv_code fx a fy b * B + mod_code fx a fy b = A /\
  (0 < B -> 0 <= mod_code fx a fy b < B) /\ (B < 0 -> B < mod_code fx a fy b <= 0).
Proof.
  intros Hb. rewrite floordiv_code_aligned. unfold mod_code, aligned. cbn [fst snd].
  set (nfr := Z.max (nf fx) (nf fy)). assert (0 < 2^(nfr - nf fy)) by (apply pow2_pos; unfold nfr; lia).
  set (A := a * 2^(nfr - nf fx)). set (B := b * 2^(nfr - nf fy)). assert (B <> 0) by (unfold B; nia).
  repeat split; nia.
Qed.

(* x // y is floor(x / y): q*y <= x < (q+1)*y for y > 0 (mirrored for y < 0) *)
Lemma floordiv_is_floor fx a fy b : b <> 0 ->
  let '(A, B) := aligned fx a fy b in let q := floordiv_code fx a fy b in
  (0 < B -> q * B <= A < (q + 1) * B) /\ (B < 0 -> (q + 1) * B < A <= q * B).
Proof.
  intros Hb. rewrite floordiv_code_aligned. unfold aligned. cbn [fst snd].
  set (nfr := Z.max (nf fx) (nf fy)). assert (0 < 2^(nfr - nf fy)) by (apply pow2_pos; unfold nfr; lia).
  set (A := a * 2^(nfr - nf fx)). set (B := b * 2^(nfr - nf fy)). assert (B <> 0) by (unfold B; nia).
  split; intros; nia.
Qed.

(* ---------- the raw integer path of the model, operands of equal signedness ---------- *)
Definition same_sign_small (fx fy : fmt) : Prop :=
  sg fx = sg fy /\ 1 <= nw fx <= 26 /\ 1 <= nw fy <= 26 /\ 0 <= nf fx <= nw fx /\ 0 <= nf fy <= nw fy.

Lemma truediv_raw_elem exa exb exq fx fy a b : same_sign_small fx fy -> in_range fx a -> in_range fy b -> b <> 0 ->
  div_raw_elem exa exb exq DTrue fx fy (nf (grow_truediv fx fy)) a b
  = Ok (if sg fx then MI (truediv_floor fx a fy b) else MU (truediv_floor fx a fy b)).
Proof.
  intros (Hs & Hwx & Hwy & Hfx & Hfy) Hra Hrb Hb. unfold div_raw_elem.
  assert (Hnfr: nf (grow_truediv fx fy) = nf fx + n_int fy) by reflexivity.
  pose proof (n_int_width fy) as Ny.
  cbv zeta. fold (truediv_k fx fy). unfold truediv_floor. rewrite truediv_k_eq.
  set (k := nw fy - (if sg fy then 1 else 0)). assert (Hk: 0 <= k <= 26) by (unfold k; destruct (sg fy); lia).
  replace (0 <=? k) with true by lia.
  assert (Hrc: raw_cast (storage fx) (storage fy) (Z.max (nw fx + Z.max k 0) (nw fy + Z.max (- k) 0)) = false).
  { unfold raw_cast. replace (64 <=? Z.max (nw fx + Z.max k 0) (nw fy + Z.max (- k) 0)) with false by lia.
    replace (53 <? Z.max (nw fx + Z.max k 0) (nw fy + Z.max (- k) 0)) with false by lia. rewrite andb_false_r. reflexivity. }
  rewrite Hrc. cbn [cast_if].
  rewrite !storage_small by lia. rewrite <- Hs.
  assert (Hplain: forall v, match v with MI z => Z.abs z * 2^k < 2^63 | MU z => 0 <= z /\ z * 2^k < 2^63 | MF _ => True | MO _ => False end ->
            mscale_raw false v k = mscale v k) by (intros v Hv; apply mscale_raw_plain; [lia|exact Hv]).
  assert (Pk: 0 < 2^k <= 2^26) by (split; [apply pow2_pos; lia | apply pow2_le; lia]).
  assert (E26: 2^26 < 2^63) by (apply pow2_lt; lia). assert (E52: 2^26 * 2^26 = 2^52) by reflexivity. assert (E5263: 2^52 < 2^63) by (apply pow2_lt; lia).
  assert (E64: 2^63 < 2^64) by (apply pow2_lt; lia).
  destruct (code_mag fx a ltac:(lia) Hra) as (Sa & Ua).
  destruct (sg fx) eqn:Esx; cbn [load].
  - specialize (Sa eq_refl). assert (2^(nw fx - 1) <= 2^26) by (apply pow2_le; lia).
    rewrite Hplain by (cbv beta iota; nia). unfold mscale. replace (0 <=? k) with true by lia.
    unfold fits_i64. replace (- 2^63 <=? 2^k) with true by lia. replace (2^k <? 2^63) with true by lia. cbn [andb bind mfloordiv].
    assert (Hn: Z.abs (a * 2^k) < 2^63) by (rewrite Z.abs_mul, (Z.abs_eq (2^k)) by lia; nia).
    rewrite (wrap_i64_small (a * 2^k)) by exact Hn.
    assert (Hq: Z.abs (a * 2^k / b) <= Z.abs (a * 2^k)).
    { set (n := a * 2^k) in *. destruct (Z_lt_le_dec 0 b); destruct (Z_lt_le_dec 0 n); nia. }
    rewrite wrap_i64_small by lia. reflexivity.
  - specialize (Ua eq_refl). assert (2^(nw fx) <= 2^26) by (apply pow2_le; lia).
    destruct (code_mag fy b ltac:(lia) Hrb) as (_ & Ub). rewrite <- Hs in Ub. specialize (Ub eq_refl).
    rewrite Hplain by (cbv beta iota; split; nia). unfold mscale. replace (0 <=? k) with true by lia.
    unfold fits_u64. replace (0 <=? 2^k) with true by lia. replace (2^k <? 2^64) with true by lia. cbn [andb bind mfloordiv].
    assert (Hn: 0 <= a * 2^k < 2^63) by nia.
    rewrite (wrap_u64_small (a * 2^k)) by lia.
    assert (0 <= a * 2^k / b <= a * 2^k) by (split; [apply Z.div_pos; lia | apply Z.div_le_upper_bound; nia]).
    rewrite wrap_u64_small by lia. reflexivity.
Qed.

Theorem truediv_raw_model fx fy a b r o : same_sign_small fx fy -> in_range fx a -> in_range fy b -> b <> 0 ->
  exists w, div_raw DTrue fx [a] fy [b] (grow_truediv fx fy) r o = Ok w /\
    w_codes w = [truediv_floor fx a fy b] /\ w_ovf w = false /\ w_unf w = false.
Proof.
  intros Hss Hra Hrb Hb. pose proof Hss as (Hs & Hwx & Hwy & Hfx & Hfy).
  unfold div_raw. cbv zeta. cbn [map2M]. rewrite (truediv_raw_elem _ _ _ fx fy a b Hss Hra Hrb Hb). cbn [bind].
  pose proof (truediv_in_range fx a fy b ltac:(lia) ltac:(lia) Hra Hrb Hb) as Hin.
  set (z := truediv_floor fx a fy b) in *.
  pose proof (n_int_width fx) as Nx. pose proof (n_int_width fy) as Ny.
  assert (Hwz: 1 <= nw (grow_truediv fx fy) <= 54).
  { unfold grow_truediv, mkfmt. cbn [nw]. rewrite <- Hs in *. destruct (sg fx); cbn [orb]; lia. }
  assert (Hzb: Z.abs z < 2^63).
  { unfold in_range, cmin, cmax in Hin. assert (2^(nw (grow_truediv fx fy) - 1) <= 2^53) by (apply pow2_le; lia).
    assert (2^(nw (grow_truediv fx fy)) <= 2^54) by (apply pow2_le; lia). assert (2^54 < 2^63) by (apply pow2_lt; lia).
    assert (2^53 < 2^54) by (apply pow2_lt; lia). assert (0 < 2^(nw (grow_truediv fx fy) - 1)) by (apply pow2_pos; lia).
    destruct (sg (grow_truediv fx fy)); lia. }
  assert (Hfin: forall w, int_wres (grow_truediv fx fy) o [z] w -> w_codes w = [z] /\ w_ovf w = false /\ w_unf w = false).
  { intros w (Hc & Ho & Hu). cbn [map existsb] in *. rewrite Hc, Ho, Hu. rewrite overflow_id by (try lia; exact Hin).
    unfold in_range in Hin. repeat split; lia. }
  destruct (sg fx) eqn:Esx.
  - cbn [arr_of all_MI fold_right bind fst snd].
    destruct (set_val_raw_i64 (grow_truediv fx fy) r o [z] ltac:(lia) ltac:(constructor; [exact Hzb|constructor])) as (w & Hw & Hi).
    exists w. split; [exact Hw|]. apply Hfin. exact Hi.
  - cbn [arr_of all_MU fold_right bind fst snd].
    assert (Hz0: 0 <= z < 2^63).
    { unfold in_range, cmin in Hin. unfold grow_truediv, mkfmt in Hin. cbn [sg] in Hin. rewrite <- Hs, Esx in Hin. cbn [orb] in Hin. lia. }
    assert (Ew: wrap_u64 z = z) by (apply wrap_u64_small; assert (2^63 < 2^64) by (apply pow2_lt; lia); lia).
    replace (AU64 [z]) with (AU64 (map wrap_u64 [z])) by (cbn [map]; rewrite Ew; reflexivity).
    destruct (set_val_raw_u64 (grow_truediv fx fy) r o [z] ltac:(lia) ltac:(constructor; [lia|constructor])) as (w & Hw & Hi).
    exists w. split; [exact Hw|]. apply Hfin. exact Hi.
Qed.
