(* driver.ml — generic line driver for the extracted model.
   Each input line: space-separated integers in hexadecimal with an optional leading '-'.
   The line is converted to the extracted [z list], passed to [Model.dispatch], and the
   resulting [z list] is printed the same way.  No arithmetic happens here. *)
(* the extracted module defines its own [string] (Coq's inductive); nothing is opened *)
module M = Model

let pos_of_hex (s : String.t) (i0 : int) : M.positive option =
  (* bits MSB first *)
  let n = String.length s in
  let acc = ref None in
  for i = i0 to n - 1 do
    let c = s.[i] in
    let d =
      if c >= '0' && c <= '9' then Char.code c - 48
      else if c >= 'a' && c <= 'f' then Char.code c - 87
      else failwith "bad hex digit" in
    for b = 3 downto 0 do
      let bit = (d lsr b) land 1 = 1 in
      acc := (match !acc with
              | None -> if bit then Some M.XH else None
              | Some p -> Some (if bit then M.XI p else M.XO p))
    done
  done;
  !acc

let z_of_hex (s : String.t) : M.z =
  if String.length s = 0 then failwith "empty token" else
  let neg = s.[0] = '-' in
  match pos_of_hex s (if neg then 1 else 0) with
  | None -> M.Z0
  | Some p -> if neg then M.Zneg p else M.Zpos p

let hex_of_pos (p : M.positive) : String.t =
  (* collect bits LSB first *)
  let buf = Buffer.create 32 in
  let bits = ref [] in
  let rec go p = match p with
    | M.XH -> bits := true :: !bits
    | M.XO q -> bits := false :: !bits; go q
    | M.XI q -> bits := true :: !bits; go q in
  (* go pushes LSB first, so !bits ends MSB first after full traversal reversed: fix below *)
  go p;
  (* !bits is now MSB ... LSB?  go pushes LSB first onto the head, so the head is the MSB *)
  let l = !bits in
  let len = List.length l in
  let pad = (4 - len mod 4) mod 4 in
  let l = (List.init pad (fun _ -> false)) @ l in
  let rec emit = function
    | a :: b :: c :: d :: t ->
        let v = (if a then 8 else 0) + (if b then 4 else 0) + (if c then 2 else 0) + (if d then 1 else 0) in
        Buffer.add_char buf "0123456789abcdef".[v]; emit t
    | [] -> ()
    | _ -> failwith "impossible" in
  emit l; Buffer.contents buf

let hex_of_z (x : M.z) : String.t =
  match x with M.Z0 -> "0" | M.Zpos p -> hex_of_pos p | M.Zneg p -> "-" ^ hex_of_pos p

let () =
  let out = Buffer.create 65536 in
  (try while true do
    let l = input_line stdin in
    let toks = List.filter (fun s -> s <> "") (String.split_on_char ' ' l) in
    let res = (try List.map hex_of_z (M.dispatch (List.map z_of_hex toks)) with Failure m -> ["ERR"; m] | Stack_overflow -> ["ERR"; "stack"]) in
    Buffer.add_string out (String.concat " " res); Buffer.add_char out '\n';
    if Buffer.length out > 60000 then (print_string (Buffer.contents out); Buffer.clear out)
  done with End_of_file -> ());
  print_string (Buffer.contents out)
