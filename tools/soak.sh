#!/bin/bash
# soak.sh [seeds...] — run every registered quick check under several seeds (and thorough once) on the
# unchanged tree, writing evidence elsewhere; prints only alarms.  Usage: tools/soak.sh 1 2 3 ; TIER=thorough tools/soak.sh 7
cd "$(dirname "$0")/.."
OUT=$(mktemp -d /tmp/fxpverif-soak-XXXX)
IDS=$(python3 -c "import json; print(' '.join(c['property_id'] for c in json.load(open('MANIFEST.json'))['checks']))")
for sd in "$@"; do
  for p in $IDS; do
    VERIF_SEED=$sd VERIF_EVIDENCE_DIR=$OUT nice -n 10 ./check $p --no-build --tier ${TIER:-quick} > $OUT/$p-$sd.log 2>&1
    rc=$?
    tail -1 $OUT/$p-$sd.log | sed "s/^/[seed $sd rc=$rc] /"
    if [ $rc -ne 0 ]; then grep VIOLATION $OUT/$p-$sd.log; for f in $OUT/replays/$p-$sd-*.json; do python3 -c "
import json; d=json.load(open('$f')); print('   ', d.get('what') or d.get('no_longer_checks'), '|', json.dumps(d.get('case'))[:400], '| exp', str(d.get('expected'))[:120], '| got', str(d.get('got'))[:120])"; done; fi
  done
done
echo "soak done: $OUT"
