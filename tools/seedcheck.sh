#!/bin/bash
# seedcheck.sh <dir-with-patch.diff-and-demo.py> <Cxx> [more Cxx...] — confirm a seeded change in a scratch copy of /repo:
# (1) demo passes on the clean copy, (2) patch applies, (3) test-suite still 86 passed / 3 failed, (4) demo fails,
# (5) run the named checks against the patched copy.  The copy is removed afterwards.
D=$1; shift
T=$(mktemp -d /tmp/fxpverif-seed-XXXX)
trap 'rm -rf "$T"' EXIT
cp -r /repo/. "$T"/ ; rm -rf "$T/.git"
cd "$T"
FXP_REPO=$T PYTHONPATH=$T /venv/bin/python "$D/demo.py" > "$T/demo_clean.log" 2>&1; echo "demo on clean copy: rc=$? $(tail -1 $T/demo_clean.log | cut -c1-150)"
patch -p1 --no-backup-if-mismatch < "$D/patch.diff" > "$T/patch.log" 2>&1 || { echo "PATCH FAILED"; cat "$T/patch.log"; exit 2; }
grep -E "FAILED|fuzz|offset" "$T/patch.log" | head -3
/venv/bin/python -m pytest -q -p no:cacheprovider --timeout=900 2>&1 | tail -1
FXP_REPO=$T PYTHONPATH=$T /venv/bin/python "$D/demo.py" > "$T/demo_mut.log" 2>&1; echo "demo on patched copy: rc=$? $(tail -1 $T/demo_mut.log | cut -c1-150)"
cd /verif
for P in "$@"; do
  VERIF_REPO=$T VERIF_EVIDENCE_DIR=$T/evidence ./check $P --no-build 2>&1 | grep -E "^VIOLATION|^KNOWN|tier=" | cut -c1-220
  for f in $T/evidence/replays/$P-*.json; do [ -f "$f" ] && python3 -c "
import json,sys; d=json.load(open('$f')); print('   replay:', (d.get('what') or d.get('no_longer_checks')), '| case:', json.dumps(d.get('case'))[:260], '| exp:', str(d.get('expected'))[:80], '| got:', str(d.get('got'))[:80])"; done
done
