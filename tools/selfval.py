#!/usr/bin/env python3
# selfval.py — self-validation of the checks against single-edit mutants of /repo that
# survive the pinned test-suite (DESIGN.md 10.1).  Each mutant is applied to a scratch
# copy under /tmp/fxpverif-mut-*, the check is run with VERIF_REPO pointing at it and an
# evidence directory of its own, and the copy is removed.  Usage: tools/selfval.py [name-substring ...]
import os, sys, subprocess, shutil, json, tempfile
VERIF = os.path.dirname(os.path.dirname(os.path.abspath(__file__)))
sys.path.insert(0, os.path.join(VERIF, 'tools'))
from mutants import MUTANTS, NEUTRAL
def run_one(name, props, path, old, new, expect_violation):
    d = tempfile.mkdtemp(prefix='fxpverif-mut-')
    try:
        shutil.copytree('/repo/fxpmath', os.path.join(d, 'fxpmath'))
        p = os.path.join(d, path); src = open(p).read()
        if src.count(old) != 1:
            return name, 'PATTERN-COUNT-%d' % src.count(old), []
        open(p, 'w').write(src.replace(old, new))
        out = []
        for pid in props:
            env = dict(os.environ, VERIF_REPO=d, VERIF_EVIDENCE_DIR=os.path.join(d, 'evidence'))
            r = subprocess.run([os.path.join(VERIF, 'check'), pid, '--no-build'], capture_output=True, text=True, env=env, cwd=VERIF)
            viol = [l for l in r.stdout.split('\n') if l.startswith('VIOLATION')]
            nf = [l for l in viol if l.endswith('no-failing-input-found')]
            what = ''
            for l in viol[:1]:
                try: what = json.load(open(l.split('replay=')[1].split()[0])).get('what', '')
                except Exception: pass
            # every replay file with a concrete input must reproduce against the mutant
            norep = 0
            for l in viol:
                if l.endswith('no-failing-input-found'): continue
                f = l.split('replay=')[1].split()[0]
                rr = subprocess.run([os.path.join(VERIF, 'check'), pid, '--no-build', '--replay', f], capture_output=True, text=True, env=env, cwd=VERIF)
                if rr.returncode == 0: norep += 1
            out.append((pid, r.returncode, len(viol), len(nf), what[:90]) + (('REPLAY-DOES-NOT-REPRODUCE=%d' % norep,) if norep else ()))
        caught = any(o[2] > 0 for o in out)
        verdict = ('CAUGHT' if caught else 'MISSED') if expect_violation else ('FALSE-ALARM' if caught else 'SILENT-OK')
        return name, verdict, out
    finally:
        shutil.rmtree(d, ignore_errors=True)
if __name__ == '__main__':
    sel = sys.argv[1:]
    items = [(m, True) for m in MUTANTS] + [(m, False) for m in NEUTRAL]
    from concurrent.futures import ThreadPoolExecutor
    todo = [(m, e) for m, e in items if not sel or any(s in m[0] for s in sel)]
    with ThreadPoolExecutor(max_workers=int(os.environ.get('SELFVAL_JOBS', '3'))) as ex:
        for name, verdict, out in ex.map(lambda me: run_one(*me[0], me[1]), todo):
            print('%-34s %-12s %s' % (name, verdict, out), flush=True)
