#!/usr/bin/env python3
# gen_manifest.py — writes /verif/MANIFEST.json from the table below (kept in one place so
# that the manifest stays valid while properties are added).
import json, os
VERIF = os.path.dirname(os.path.dirname(os.path.abspath(__file__)))
TB = ('Trusted base: Coq 8.16.1 kernel (full .vo build, vm_compute only in Examples/witnesses, no native_compute); Print Assumptions on every '
      'theorem of coq/Props/%s.v must report "Closed under the global context" (no axiom allow-listed); coq/NP.v is a hand-written, unverified model of '
      'the CPython/NumPy primitives, validated against the interpreter on every run; the model (coq/*.v) is hand-written and tied to /repo by '
      'differential execution of the extracted model (ExtrOcamlBasic only, ocaml/driver.ml) against the implementation on generated inputs - sampled, not proved.')
CHECKS = {
 'C01': dict(
   text='Proof: theorems C01_store_float_arrays / C01_store_int_arrays show that the code-shaped model of Fxp.set_val (float scaling, NumPy rounding, astype, '
        'utils.clip, bit-mask utils.wrap, inaccuracy comparison) equals Spec.quantize and the Spec flag conditions for every core-domain format, all 10 mode pairs, '
        'arrays of any length; C01_store_floats_saturate_any_magnitude extends it to every finite double under saturate with n_frac>=0 (scaled value overflowing to infinity, Python-object path when an element exceeds 2^64, arrays mixing huge and fractional elements); C01_store_complex_arrays: each component of a complex input is quantized on its own and the flags are those of either part; C01_read_back shows get_val is exactly code*2^-n_frac. The tie to /repo is a correspondence run: every carrier x route, exhaustive '
        'quarter-LSB sweeps of small formats, boundary-biased random formats up to 52 bits, far-out-of-range values under both overflow modes, huge floats alone and mixed with fractional ones, compared with the extracted Spec and model.',
   design='7/C01', technique='Coq proof of model = quantizer + differential correspondence (extracted model vs implementation)'),

 'C03': dict(
   text='Proof: for EVERY n_word>=1 and every integer x, utils.wrap as written (mask with 2^n-1, OR with -2^n above the sign bit) returns the unique in-range integer congruent to x '
        'modulo 2^n_word (C03_wrap_is_residue, C03_unique); wrapping commutes with + - * (C03_ring_*: n-bit register); period laws for codes and for inputs (floor/ceil/around always, '
        'trunc/fix when the congruence implies it - C03_period_trunc_not_a_consequence records why); the core-domain store and the wide-word (>=64 bit, Python-integer) object path are '
        'proved to store that residue. Tie: exhaustive small formats, random core formats, period pairs, words 64..256 with integers up to 4x the width, register arithmetic chains.',
   design='7/C03', technique='Coq proof (bit-level lemmas, residue uniqueness) + differential correspondence'),
 'C04': dict(
   text='Proof: per write the three raised conditions are exactly the Spec conditions and the callbacks fire once each in order (C04_write_flags_and_callbacks); for every history of '
        'writes and resets the flags equal the OR of the per-write conditions since the last reset and extended_prec is untouched (C04_history, by induction over the history; C04_sticky; C04_reset); '
        'inaccuracy propagation (C04_propagate). Tie: random histories of up to 10 steps with a recording callback, flags / extended_prec / callback log compared after every step.',
   design='7/C04', technique='Coq proof by induction over histories + differential correspondence on histories'),
 'C05': dict(
   text='Proof: direction, error bound and tie parity of each rounding mode stated on the stored code without the reference quantizer (C05_floor, C05_ceil, C05_trunc_fix, C05_around, '
        'C05_error_below_lsb) for every exponent; every representable value is a fixed point of all ten mode pairs with no flag (C05_idempotent); quantization under saturate is monotone '
        '(C05_monotone over a common exponent, C05_monotone_any for any two dyadic inputs). Tie: the relations are evaluated with exact rationals directly on the implementation output over the C01 input stream, plus idempotence and sorted-input sweeps.',
   design='7/C05', technique='Coq proof (lia/nia over div/mod by 2^k) + relation checking on implementation output'),

 'C10': dict(
   text='Proof: C10_routes - for every pair of core formats, all 10 destination mode pairs, arrays of any length and every route class (ndarray routes resize / like() / equal; Fxp-input routes '
        'constructor / like= / set_val / call / indexed assignment with the source vdtype), the model of utils.scale_raw + set_val(raw=True) stores the exact source value quantized into the destination with the flags of that '
        'quantization, whatever the value type of the source (no side condition left); C10_chain lifts it to conversion sequences of any length by induction; C10_preserves_representable; C10_wide_codes_exact / '
        'C10_fewer_fraction_bits_any_source: sources of ANY width whose codes exceed 53 bits travel as exact rationals and are rounded once (codes and all three flags, destination of any width). '
        'Tie: 9 concrete routes x format pairs x modes x shapes x source construction routes x chains, codes at the 2^62..2^65 rescaling boundary, against Spec and the model.',
   design='7/C10', technique='Coq proof of the conversion model = quantizer (+ chain induction) + differential correspondence'),

 'C07': dict(
   text='Proof: C07_add_sub_mul_exact - for every pair of operand formats (any signedness mix, any word length, n_frac <= n_word+1), every pair of in-range codes, arrays of any length, the model of '
        '_add_raw/_sub_raw/_mul_raw (int64 / uint64 wrap, int64+uint64 -> float64 promotion, Python-object path selected by the _raw_cast guard) followed by Fxp(val, raw=True) stores the exact integer result with no '
        'overflow/underflow flag; C07_exact_int_is_exact ties that integer to the exact dyadic result; C07_no_overflow_* are bound lemmas over all formats (not corner enumeration); C07_unsigned_difference states the one exception; '
        'C07_tree lifts exactness to nested expressions of any depth by induction. Tie: every code pair of small words as broadcast arrays, extreme corners, random operands, 3 call routes, expression trees, against Spec and model.',
   design='7/C07', technique='Coq proof (dtype-level model, guard soundness, growth bound, tree induction) + differential correspondence'),
 'C19': dict(
   text='Proof: the C07 theorems carry no width hypothesis (C19_arith_any_width), because C19_guard_sound shows that whenever functions._raw_cast leaves the operands in int64 / uint64 / float64 every intermediate '
        'is exact (|z|<2^63, reinterpretable uint64, <2^53) and otherwise Python integers are used; C19_store_python_int: a Python integer of ANY size stored into ANY format with n_frac>=0 is OVERFLOW(v*2^n_frac) with exact flags '
        '(model of the _use_pyint decision of set_val); C19_store_wide_ints_negative_nfrac: into a NEGATIVE fraction length, integers beyond 53 bits are scaled by an exact rational factor (codes and three flags, any word). '
        'Tie: Python integers up to 2^1000 by four store routes, n_frac 0..n_word+3 and -8..-1, against Spec and the model; operand words 2..70 with results up to 141 bits, extremes / near extremes / random, 3 call routes.',
   design='7/C19', technique='Coq proof of guard soundness at every width + differential correspondence'),

 'C08': dict(
   text='Proof: for all operand formats of the domain (n_word<=12, 0<=n_frac<=n_word), every imposed format up to 26 bits (C08_sizing_policies_covered: every same/largest/smallest/optimal format is one), all 10 governing '
        'mode pairs and arrays of any positive length, BOTH methods return Spec.quantize of the exact result with all its flags: C08_imposed_repr (value method, also used by every out_like route) and C08_imposed_raw (integer-code method, '
        'the default: rescaling by integer or float factors, NumPy dtype promotion int64/uint64/float64, set_val(raw=True)); C08_methods_agree; C08_raw_optimal: the raw method with optimal sizing at every width; '
        'C08_unary: - + abs exact whenever representable. The choice of the governing configuration and of the target format (out, out_like, op_out, op_out_like, constants with op_input_size) is glue: the correspondence run '
        'compares implementation, Spec and model for both methods, every sizing policy, out / out_like targets, constants on either side, governing modes and identity z is out.',
   design='7/C08', technique='Coq proof (both methods into imposed formats, sizing coverage, unary) + differential correspondence for the configuration/target selection glue'),

 'C09': dict(
   text='Proof (reference codes, all formats): the raw quotient floor(a*2^k/b) lies below the exact quotient by less than one LSB (C09_truediv_within_one_lsb), is exact when representable, and is inside the optimal format '
        'for every pair of operand formats (C09_truediv_no_overflow); x//y is floor(x/y); x%y = x - y*floor(x/y) with the divisor sign and (x//y)*y + x%y = x (C09_mod_and_reconstruction); the floor quotient and the modulo fit their optimal formats (C09_floordiv_mod_no_overflow). '
        'Model: C09_truediv_raw_model, C09_floordiv_raw_model, C09_mod_raw_model prove that the dtype-level model of _truediv_raw / _floordiv_raw / _mod_raw + set_val(raw=True) stores exactly those codes with no flag for operands of ANY signedness combination '
        '(mixed signedness through float64 floor_divide / remainder), words up to 26 bits, arrays of any positive length. PARTIAL: the repr method of x/y (rounded double quotient, then the configured rounding) is not a theorem; '
        'the correspondence run checks the property relations with exact rationals on the implementation output (neighbour relation, floor, modulo, reconstruction, formats, raw = repr on // and %) and compares the model on every case.',
   design='7/C09', technique='Coq proof of the division laws, bounds and raw-method model (all signedness combinations) + differential correspondence (repr method of true division)'),

 'C16': dict(
   text='Proof: for any two formats up to 52 bits (any signedness / n_frac mix) each of the six relations computed on get_val() equals the relation between the exact stored values (C16_compare_fxp, C16_compare_number: float comparison of exact doubles = '
        'dyadic comparison); get_val is exactly code*2^-n_frac; astype(int) is the floor of the value for negative, zero and positive n_frac (through the float floor_divide branch: C16_int_is_floor with rnd64_shifted); bool; uraw = code mod 2^n_word for every word length. '
        'Tie: adjacent values across format pairs up to 24 bits (scalars, arrays, plain numbers), every code of every format up to 6/8 bits for the conversions, exact-rational relations on the implementation output and the model.',
   design='7/C16', technique='Coq proof (exact double = dyadic semantics) + differential correspondence'),
 'C17': dict(
   text='Proof: C17_store - when the transformed input (v-b)/s computed in float64 is an exact double t of the core domain (the property\'s own premise), storing v stores Spec.quantize of t with exactly the flags of t; C17_value_only: the result depends only on the value of t '
        '(representation independence of rounding); C17_read_uses_exact_value and C17_limits: reading and upper/lower/precision are the affine images of the exact unscaled quantities. Tie: formats up to 16 bits, all modes, dyadic scales (incl. negative) and biases, float / Python-int / int-array / int-list carriers, '
        'the premise is checked per case with exact rationals; val, get_val, limits, flags, best-size construction compared with Spec and model.',
   design='7/C17', technique='Coq proof (affine wrapper reduces to C01) + differential correspondence'),

 'C11': dict(
   text='Proof (over bit lists, EVERY word length): bin() has n_word digits that decode to code mod 2^n_word (C11_bin_is_pattern); the parser strbin2int (sign extension, two\'s complement decode) restores the code from that pattern (C11_bin_roundtrip); '
        'hex() has ceil(n_word/4) digits decoding to the same pattern and strhex2int restores the code (C11_hex_digits, C11_hex_roundtrip); character <-> bit round trip; value mode reduces to C05 idempotence. np.binary_repr / format(\'X\') / bin(int) are modelled primitives. '
        'Tie: every code of every format up to 6/8 bits and boundary/random codes up to 256 bits: bin (with dot and prefixes), hex, base_repr strings verbatim against an independent rendering and the model; round trips by constructor / call / set_val / from_bin in raw and value mode; 1-D and 2-D arrays.',
   design='7/C11', technique='Coq proof of codec round trips on bit lists + differential correspondence on strings'),
 'C13': dict(
   text='Proof (EVERY word length, via Z.testbit / mod 2^n): the raw value produced by & | ^ (Python-integer bit ops on the n-bit images, utils.twos_complement_repr) is the in-range code of x\'s format whose pattern is the AND/OR/XOR of the operand patterns, '
        'and it is stored with no flag (C13_and_or_xor, C13_pattern_of_result); ~ (C13_not), ~~x = x, ~x = -x - LSB for signed x, rejection of different word lengths. Tie: all code pairs of small words with every signedness combination, wide words '
        '{16,31,32,33,63,64,65,100,128}, Fxp and integer-mask operands on either side, De Morgan on the implementation, malformed stream.',
   design='7/C13', technique='Coq proof (bit-level, all widths) + differential correspondence'),

 'C12': dict(
   text='Proof (strings, EVERY n_word >= 0 and EVERY integer n_frac): parsing the rendered fxp spelling gives back (signed, n_word, n_frac, complex) (C12_fxp_roundtrip); the Q/UQ spelling round-trips whenever m = n_word - n_frac >= 0 with the sign bit counted in m (C12_q_roundtrip); '
        'parsing is case-insensitive (C12_case_insensitive); get_dtype(notation) renders the requested notation whatever the configured default (C12_get_dtype). Decimal numerals use the standard library DecimalString/DecimalZ; the two regular expressions are represented by a hand-written matcher '
        '(alternation order and backtracking of re.match included) that is tied to the real regexes by the correspondence run. Tie: every format with n_word<=24 plus boundary words up to 256 (all words in the thorough tier), n_frac -8..n_word+8, complex suffix, both configured defaults, constructor and resize, Q/UQ/S/U/QU spellings in every case.',
   design='7/C12', technique='Coq proof of parser/printer round trips + differential correspondence on strings'),

 'C14': dict(
   text='Proof: x << n in expand mode stores code*2^n in the grown word with no flag (C14_lshift_expand, from the bit-length bound of the word-growth formula); x >> n in expand mode is an exact division for arrays of any length: '
        'utils.min_pow2 is modelled as a fuelled loop whose invariant characterises its result as the 2-adic valuation of the array (C14_min_pow2_is_valuation), the fraction grows by exactly n minus it, and code\'*2^(n-e) = code (C14_rshift_expand); '
        'trunc/keep: >> is floor(code/2^n) in the unchanged format and stays in range (C14_rshift_keep), << is exact when representable and clamped otherwise (C14_lshift_keep). The float log2 bit-length is a modelled primitive (|code| < 2^47). '
        'Tie: all codes of small words, boundary/random codes to 32 bits, all counts 0..n_word+3, three modes, scalars and arrays; exact-rational relations on the implementation output and the model.',
   design='7/C14', technique='Coq proof (loop invariant, exactness) + differential correspondence'),

 'C18': dict(
   text='Proof: on the object path (n_word >= 64) the model of set_val is plain integer arithmetic: for EVERY n_word >= 64 and every Python integer given as a code (raw=True) or as an integer value (n_frac >= 0) the stored code is OVERFLOW(c) with exact overflow/underflow flags '
        '(C18_store_python_int, C18_in_range_is_exact); binary / hex strings in raw mode restore the code and the bitwise operators are exact at every width (C18_bin_roundtrip, C18_hex_roundtrip, C18_bitwise, instances of the all-width C11/C13 theorems); the indicator equals (64 <=? n_word). '
        'Tie: the listed word and fraction lengths, codes at/beyond both bounds, multiples of the modulus, random codes up to 4x the width, int / value / bin / hex inputs by three routes, val, flags, bin(), hex(), ~ & | ^, and the indicator through explicit sizes, dtype=, like=, best-size, resize, reset and bitwise routes.',
   design='7/C18', technique='Coq proof (object path = integer arithmetic, all widths) + differential correspondence'),

 'C06': dict(
   text='Proof: the integer-bit search of set_best_sizes (a loop, modelled with fuel) tests exactly whether both extremes lie in [-2^i, 2^i) (C06_msb_test) and therefore returns the LEAST integer length holding them, by its loop invariant (C06_min_int_bits); '
        'the reconciliation arithmetic of _init_size when n_int is given (C06_n_int_with_n_frac / _with_n_word). the fraction-bit search (binary expansion, also modelled with fuel) returns the LEAST n for which the value is a multiple of 2^-n, hence exact with n bits and not with fewer (C06_min_frac_bits, loop invariant, termination within the fuel). PARTIAL: the combination step (maximum over the elements, reconciliation with the 64-bit cap) is modelled, not a theorem. '
        'The correspondence run checks exactness, minimal n_frac, minimal n_word, the only-n_word / only-n_frac / n_int rules against exact rationals for dyadic inputs k/2^f (f<=20, |k|<2^40) in every subset of given sizes and signedness, the capped non-dyadic case, and compares the model Sizes.init_size on every case.',
   design='7/C06', technique='Coq proof (loop invariants of the integer-bit and fraction-bit searches) + differential correspondence'),

 'C15': dict(
   text='Proof: sum over any number of elements (all elements or one slice along an axis; x.size drives the growth) returns the exact sum with no flag (C15_sum_exact: growth rule, int64 accumulation, Fxp(val, raw=True)); the accumulating reductions never overflow their optimal format even with every element at an extreme - '
        'bound lemmas for ANY length: C15_sum_no_overflow (count*2^(n-1) <= 2^(n-1+ceil(log2 count))) and C15_dot_no_overflow (via the product bound of C07); C15_accumulation_exact; the same for cumsum (every prefix sum, C15_cumsum_exact), prod (C15_prod_exact, C15_prod_no_overflow: the product of n codes fits a word n times as wide) and dot (C15_dot_exact), all for any length while the grown word stays within 62 bits. trace = the sum of the diagonal (C15_trace_exact). PARTIAL: cumprod is not a theorem; '
        'max / min / sort / clip / transpose / diagonal only select or rearrange codes. Tie: shapes to 3x3 / length 8, formats to 12 bits, extremes and random codes, both call routes, every axis; values, shape, growth rule, flags, type; model comparison for 1-D sum / cumsum / prod / dot. The dispatch glue itself has no model.',
   design='7/C15', technique='Coq proof (sum, cumsum, prod, dot exactness and no-overflow bounds for any length) + differential correspondence'),

 'C20': dict(
   text='Proof: a location-based alias model (each object = configuration, status record, value buffer, callbacks list; every derivation route allocates all fresh, indexing views the parent buffer) satisfies a separation invariant after histories of ANY length '
        '(C20_separation_invariant, by induction over the list of derivations) and therefore mutating one object is invisible to every other, the one exception being an in-place value write inside a view family (C20_independent). The allocation table is an assumption of the model that the tie checks: '
        'for 17 routes the harness compares `is` / np.shares_memory identity facts with the table, runs random derive-then-mutate histories and verifies that no other object changes (value, status, configuration), checks x[i][j]=v write-through, '
        'compares input containers (lists, tuples, nested, ndarrays, bin/hex/decimal string lists) before/after by three store routes, and tries every invalid configuration value through attribute, keyword and update (finite enumeration).',
   design='7/C20', technique='Coq proof (separation invariant over histories) + behavioural and identity correspondence'),

 'C02': dict(
   text='Proof: range membership is an invariant of EVERY call of the model of set_val, whatever array / dtype / raw flag / modes it is given (C02_every_write_in_range, words to 53 bits; C02_overflow_in_range for every width), and of the one direct buffer write (>> in keep mode, C02_rshift_keep_in_range); '
        'since every public route ends in one of these writes, every reachable object holds in-range codes; n_int by definition, upper/lower/precision by C17_limits, dtype by C12. Saturation side for Python integers of ANY size (C02_saturate_side_int) and for floats of any finite magnitude (C02_saturate_side_float). '
        'Tie: random programs of up to 12 public operations over a pool of objects (29 operation kinds, all sizing policies and shifting modes), every live object checked after every step with exact rationals (range, n_int, upper/lower/precision through scale/bias, dtype); floats to 1.7e308 and integers to 2^1000 under saturate against Spec.',
   design='7/C02', technique='Coq proof (range invariant of every write) + program-level exploration with exact well-formedness checks'),
}
# strata added to the ties after the hunting rounds (appended to level_claimed.text; DESIGN.md 0.2 / 0.8 have the full list)
EXTRA = {
 'C05': ' Round-6: element writes through a view (row = x[1]; row[i] = v) must round by the mode of the object that holds the values. Rounds 7-8: stratum D (decimal.Decimal inputs with more digits than a double holds, either sign of n_frac); carrier arr_obj_f32. Round-9: stratum F, values handed over by another fixed-point object (16..70 bits, integer-valued or not) into core formats with negative n_frac too.',
 'C01': ' Later strata: wrap of floats beyond 2^62 scaled, complex64 carriers, tiny complex components, Decimal scalars and lists, object ndarrays mixing ints and floats, a real value written by index into a complex array. Round-3 strata: np.longdouble carriers with 64-bit significands (scalar, 0-d, 1-element array, list); a complex value written by index into a real array; decimal strings in exponent notation. Round-5: boolean carriers (True, np.bool_, lists and arrays) are the numbers 1 and 0. Round-6: np.clongdouble carriers; element writes through a view (row = x[1]; row[i] = v). Rounds 7-8: longdouble next to a huge neighbour; carriers arr_obj2d, arr_obj_f32, arr2d_T; acknowledging callbacks. Round-9: exponent strings with an upper-case E.',
 'C02': ' Later: theorem C02_saturate_side_float_any_width (words to 960 bits); program operations like= + scale / bias and set_best_sizes(); scaled objects with integer scale / bias at the int64 / uint64 edge; float scalars, lists and arrays saturating in words of 53..70 bits (value upper + 1 LSB, saturating element after an in-range one), Spec only. Round-5: program operations conj (a real object is its own conjugate, also beyond 53 bits) and resize_rejected (a rejected resize leaves the object as it was). Round-6: both parts of complex codes are checked for range; conj of complex objects whose imaginary code is the lowest one. Round-9: max / min into out=.',
 'C03': ' Later strata: dot / prod / cumsum and sums of 62..63-bit words into registers and into their optimal word beyond 64 bits (exact oracle and Reduce model); + - * / sum / max of scalar, indexed and array operands through out= / op_out into narrow and 64..128-bit wrap registers with flags (Spec and arithmetic model), sums of more than 53 bits into registers with fewer fraction bits (Spec), 64..128-bit sources copied into core words (Spec and conversion model). Round-5: theorem C03_wide_sum_into_register (operands of any width, sums of more than 53 bits into fewer fraction bits: the exact sum quantized once); nested Python lists / tuples with elements in [2^63, 2^64) in stratum W. Round-6: an acknowledging callback (reset() inside the overflow / underflow event) on a share of the wrap stores; out= registers whose fraction length puts the aligned operands at the int64 edge. Rounds 7-8: stratum N (np.square / np.left_shift on wide integer operands through out= into wrap registers wider than 64 bits); negative differences of unsigned operands into wide registers on purpose.',
 'C04': ' Later strata: 54..63-bit integers into formats with negative n_frac (flags, callbacks, model); the inaccuracy flag through -x +x abs np.negative np.abs << >>; complex writes. Round-6: inaccuracy propagation into results stored through out= (function and NumPy spelling). Rounds 7-8: registration by x.callbacks.append and a bystander object; stratum K: resize(restore_val=False) stores the kept codes with the flags and callbacks of that write. Round-9: formats reached from another word size through resize(n_frac=, n_int=) or like= with both sizes before the history runs.',
 'C07': ' Later strata: the value method (op_method=repr) on operands built from integer values, forced integer formats. Round-3 strata: product trees of integer-valued leaves with n_frac = -1 by the value method; operations while a class-wide template is installed. Round-5: operands carrying array_op_method=raw in their configuration (the value method computes on values all the same). Rounds 7-8: operands obtained by iterating over an array; array_output_type=array on the NumPy route (the plain array holds the exact values). Round-9: indexed elements of integer-valued arrays under the value method for every signedness pair; array operands rewritten through a view between two uses.',
 'C08': ' Later strata: the constant under op_input_size=same is the number quantized under the operand\'s modes; NumPy numbers on the left. Round-5: theorems C08_imposed_raw_wide_sum / C08_imposed_raw_wide_product (operands of any width, exact results of more than 53 bits into imposed formats with fewer fraction bits); out_like templates with an earlier life (the flags of the result are about the result). Round-6: operands obtained by indexing an array (built from codes or from integer values). Round-7: unary results that are not representable (the negated / absolute lowest code) hold the bound or the residue their own overflow mode demands. Round-9: the same object combined with the same constant before and after its modes were changed.',
 'C09': ' Later strata: x / y into an imposed format (sizing policies, out=, plain divisor; model opcode 45), operand formats whose integer bits do not overlap, mixed-sign operands of 54..63 aligned bits. Round-3: the value method also with operand words beyond 53 bits (// and % only; Div.div_repr follows the switch to the integer-code method). Round-5: the operands presented as two scalars, an array against a scalar or an indexed element (either side), two arrays. Round-6: strongly negative fraction lengths (values reaching 2^63) with operands built from integer values, by either method. Round-9: stratum T, a class-wide template of either signedness installed during / // %.',
 'C10': ' Later strata: complex sources through every route into objects created with and without a value. Round-3: source objects whose value type came from a list of NumPy uint64 scalars; indexed assignment into a destination that reached its format by an in-place resize. Round-5: destinations given through n_int and one other size together with a change of signedness (resize and like=). Round-7: conversions into the same format; an element written into a second result of the conversion never shows in the source. Round-9: conversions that omit signed=.',
 'C11': ' Later strata: every prefix the configuration accepts (and none) rendered and parsed back; NumPy string arrays; 2-D renderings. Round-3: binary strings rendered with the point fed back with raw=True (set_val, constructor, from_bin). Round-6: the rendering with the binary point fed back with every accepted prefix, upper case included. Rounds 7-8: an explicit prefix argument (the empty one included) wins over the configured prefix; configurations built from a template configuration with explicit prefixes. Round-9: render, change codes in place (view, row, element, sort), render again with the same arguments.',
 'C12': ' Later strata: fxp_sum(dtype=) (utils.get_sizes_from_dtype) with x.dtype and every spelling; the notation switched on the object. Round-3: constructing with a real value and a complex dtype string reproduces the complex format. Round-6: a complex element written into an object of real values: the dtype string follows at once.',
 'C13': ' Later: theorems C13_arrays_and_or_xor / C13_arrays_not / C13_arrays_pairing (arrays of any length, any word) and the array model (opcode 61); arrays of codes on either or both sides, also as transposed 2-D views, scalar & array, De Morgan on arrays, NumPy masks on the left. Round-3: in-place update of one element (x[0] ^= 1) on arrays of every listed word length. Round-5: stratum S, two array operands of different shapes that broadcast against each other (equal sizes included): the table of every pair. Round-6: NumPy masks on the left while the configuration of x says array_output_type=array. Round-9: 3-D operands, ~x and mask forms in the broadcast stratum.',
 'C14': ' Later strata: NumPy integer shift counts; the value views real / imag and the array-ness of val after a shift. Round-3: C14_lshift_expand holds for every word length and count (exact bit count, Python integers from 64 bits on); C14_lshift_zero_keeps_format. Round-5: theorems C14_lshift_expand_arrays / C14_lshift_expand_arrays_word_least and the array model of << (opcode 92); stratum C: words 33..96 with counts to 70 in all three modes. Round-6: elements x[i] of arrays as shift operands (all strata). Rounds 7-8: a second shift of the same object after its codes changed through a view; transposed 2 x 2 operands. Round-9: operands whose configuration carries an op_out_like template (the shifts size their results by their own rule).',
 'C15': ' Later: C15_sum_exact / cumsum / prod / dot / trace hold for EVERY word length (Python-integer accumulation from 64 result bits on, fix aaa3394, modelled); theorem C15_cumprod_exact (+ C15_cumprod_entry_value) and the cumprod model; clip with float / one-sided / narrow NumPy / fixed-point / keyword bounds; tuples of axes; trace offsets on non-square matrices. Round-3: the accumulating reductions by the value method on integer-valued elements with a negative fraction length; clip with fixed-point bounds on the value path. Round-5: negative axes; clip with crossed bounds (a_min > a_max: the upper bound wins, as in NumPy, on both methods). Round-7: the in-place sort method, also on views (x[i].sort() shows in x). Round-9: np.sort(x, axis=None); stratum T, the accumulating functions into a caller-chosen format (out= / out_like=) that holds every result (fix 58a2337: cumprod into fewer fraction bits).',
 'C16': ' Later strata: the left object reached through four histories, array_op_method=raw, numbers on the left (Python and NumPy), the six NumPy comparison functions called by name. Round-3: the comparison functions by name under both settings of array_op_method. Round-5: an object that has seen a rejected indexed write (IndexError) reads and compares as before. Rounds 7-8: fraction lengths -30..60 far apart between the operands; item() with flat, n-d, tuple and negative indices. Round-9: resize(n_int=) on raw-built objects.',
 'C17': ' Later strata: narrow NumPy carriers, fixed-point values as carriers, like= with scale= / bias=, raw writes on scaled objects, and a scaled object as first / second operand of + - * or as the out= target (it counts by the value it reads back; Spec only). Round-3: routes equal() and like(), NumPy-scalar scale / bias, lists of NumPy uint64 scalars, complex values into scaled objects. Round-5: reading (get_val, str, ==) never changes the stored codes and a second reading returns the same values; all-integer scaled objects; a value-less scaled object and the elements x[i] of a scaled array carry no flags of their own. Round-6: size inference of scaled objects under a coarse max_error (same configuration on both sides); scale / bias as 0-d arrays. Rounds 7-8: templates with a scaling of their own overridden by explicit scale= / bias= (zero and one included); one-operand functions into a scaled out= (also as a 1-tuple). Round-9: np.sum(initial=) into a scaled out.',
 'C18': ' Later strata: lists of wide integers, the value buffer after an indexed write, 2-D renderings of wide arrays. Round-3: the shift operators on wide words (scalars and arrays, codes at and next to powers of two). Round-5: the indicator under other n_word_max settings; a sequence assigned to one element is rejected, never stored as a nested array; nested Python lists with elements in [2^63, 2^64). Round-9: hex strings without leading zeros (hex(padding=False)) into signed wide words.',
 'C06': ' Later: theorem C06_best_sizes_minimal (+ C06_code_is_exact): with both sizes inferred and below the cap, arrays of any length get the least fraction length exact for every element and the least word holding every code. Round-5: theorems C06_given_frac_minimal_word and C06_given_word_best_frac (one size given); words many bits short of the exact fraction with an extreme just beyond a power of two. Round-6: a prelude (the same values constructed earlier in the process under a coarse max_error) before a share of the cases. Round-7: theorem C06_word_within_max; the capped stratum (wide-dynamic-range arrays, where the cap shortens the fraction) is tied to the corrected model (opcode 100) for inputs that are multiples of 2^-52. Round-9: stratum H (sequences of size inferences as the first ones of a fresh process, against a warmed-up process and the exact minimal format); only a negative n_frac given (fix 616bb5f; the error branch of the model for it removed).',
 'C19': ' Later strata: both operands configured with a larger n_word_max; integers into negative n_frac (Spec and model), operands obtained by indexing, the value method on integer-valued operands whose words add up to 62..66 bits. Round-8: operands obtained by iterating over an array. Round-9: array operands used once, rewritten through a view, used again.',
 'C20': ' Later strata: 19 container kinds compared deeply before and after three store routes; T / flatten / ravel / fxp_like among the 17 routes. Round-3: the value view x.real after a write through a view. Round-5: write-through on slices, through rows taken earlier, for words of 64 bits and more, and of a complex value through a view of real values (not lost silently). Round-6: the four Fxp-valued configuration settings set on the source, used and changed through derived objects. Round-7: stratum F: a derivation that fails (a callback raising while the derived object is built) leaves its operand whole. Round-9: observation U, 46 method / operator / function routes with op_out_like configured (the result is never the reference; writing to it never reaches it).',
}
NA_REASON = 'not claimed'
def main():
    props = [json.loads(l)['id'] for l in open(os.path.join(VERIF, 'properties.jsonl'))]
    checks = []
    for pid in props:
        if pid not in CHECKS: continue
        c = CHECKS[pid]
        checks.append({
            'property_id': pid,
            'quick_cmd': './check %s --tier quick' % pid,
            'thorough_cmd': './check %s --tier thorough' % pid,
            'evidence_file': '/verif/evidence/%s.json' % pid,
            'replay_cmd_template': './check %s --replay {path}' % pid,
            'engine': 'coq-model-correspondence',
            'level_claimed': {'category': c.get('category', 'proof'), 'text': c['text'] + EXTRA.get(pid, ''), 'design_ref': 'DESIGN.md section ' + c['design']},
            'level_note': c.get('note', '') + TB % pid,
            'technique': c['technique'],
        })
    m = {
        'version': 1,
        'setup_cmd': './build.sh',
        'hooks': {'guard': 'FXPMATH_VERIF', 'enable': 'no hooks are needed: every observable is public API; checks import fxpmath from /repo\'s working tree with the guard unset',
                  'baseline_off_cmd': 'cd /repo && /venv/bin/python -m pytest -ra -q -p no:cacheprovider --timeout=900 --continue-on-collection-errors',
                  'source_commits': [], 'add_only': True},
        'engines': [{'name': 'coq-model-correspondence', 'path': '/verif/check', 'serves_properties': [c['property_id'] for c in checks],
                     'kind_free_text': 'Coq 8.16.1 development (coq/), extracted to OCaml (build/driver), Python correspondence harness (harness/)'}],
        'checks': checks,
        'not_applicable': [{'property_id': p, 'reason': NA_REASON} for p in props if p not in CHECKS],
        'notes': 'fix: commits in /repo and known findings are listed in /verif/known_findings.json; DESIGN.md documents the approach.',
    }
    json.dump(m, open(os.path.join(VERIF, 'MANIFEST.json'), 'w'), indent=1)
    print('MANIFEST: %d checks, %d not_applicable' % (len(checks), len(m['not_applicable'])))
if __name__ == '__main__':
    main()
