#!/bin/bash
# seedall.sh <seed-dir-name> — re-confirm one stored seed: its demo passes on a clean copy of /repo and fails with the patch, the pinned suite is
# unchanged, and the checks named in its meta.json (caught_by) report a violation.  Run over all live seeds with:
#   ls seeded > all.txt; grep -l OBSOLETE seeded/*/meta.json | xargs -n1 dirname | xargs -n1 basename > obs.txt
#   grep -v -x -f obs.txt all.txt | xargs -P 6 -n1 tools/seedall.sh      (exact names: a prefix match would drop agent10 / agent11)
d=$1
V=$(cd "$(dirname "$0")/.." && pwd)
[ -f $V/seeded/$d/patch.diff ] || exit 0
props=$(python3 -c "import json; m=json.load(open('$V/seeded/$d/meta.json')); print(' '.join(m.get('caught_by') or [m.get('breaks_property') or m.get('property')]))")
out=$($V/tools/seedcheck.sh $V/seeded/$d $props 2>&1 | grep -v conda)
clean=$(echo "$out" | grep -c "demo on clean copy: rc=0")
pat=$(echo "$out" | grep -c "demo on patched copy: rc=1")
suite=$(echo "$out" | grep -c "2 failed, 87 passed")
viol=$(echo "$out" | grep -c "^VIOLATION")
echo "$d clean=$clean patched_fails=$pat suite=$suite violations=$viol"
