# runs the pinned suite against each named mutant (scratch copy under /tmp), prints pass/fail summary
import os, sys, subprocess, shutil, tempfile
sys.path.insert(0, __import__('os').path.dirname(__import__('os').path.abspath(__file__)))
from mutants import MUTANTS, NEUTRAL
from concurrent.futures import ThreadPoolExecutor
sel = sys.argv[1:]
def one(m):
    d = tempfile.mkdtemp(prefix='fxpverif-suite-')
    try:
        subprocess.run(['git','-C','/repo','worktree','add','--detach',d+'/wt','HEAD'],capture_output=True)
        wt=d+'/wt'
        p=os.path.join(wt,m[2]); s=open(p).read(); assert s.count(m[3])==1
        open(p,'w').write(s.replace(m[3],m[4]))
        r=subprocess.run(['/venv/bin/python','-m','pytest','-q','-p','no:cacheprovider','--timeout=900','tests'],cwd=wt,capture_output=True,text=True,env=dict(os.environ,PYTHONPATH=wt))
        tail=r.stdout.strip().split('\n')[-1]
        return m[0], tail
    finally:
        subprocess.run(['git','-C','/repo','worktree','remove','--force',d+'/wt'],capture_output=True)
        shutil.rmtree(d,ignore_errors=True)
todo=[m for m in MUTANTS+NEUTRAL if any(s in m[0] for s in sel)]
with ThreadPoolExecutor(8) as ex:
    for n,t in ex.map(one,todo): print(n,'|',t,flush=True)
