#!/usr/bin/env python3
# coverage_report.py <cov-dir> — which executable lines of /repo/fxpmath the correspondence runs executed
# (collected with VERIF_COV_DIR=<dir> ./check Cxx ...).  Prints per-file totals and the uncovered line ranges
# with the enclosing function.
import sys, os, json, glob, ast, dis
REPO = os.environ.get('VERIF_REPO', '/repo')
cov = {}
for f in glob.glob(os.path.join(sys.argv[1], '*.json')):
    for fn, ln in json.load(open(f)): cov.setdefault(fn, set()).add(ln)
def exec_lines(path):
    code = compile(open(path).read(), path, 'exec'); out = set()
    def walk(c):
        for _, _, ln in c.co_lines():
            if ln: out.add(ln)
        for k in c.co_consts:
            if hasattr(k, 'co_lines'): walk(k)
    walk(code); return out
def funcs(path):
    t = ast.parse(open(path).read()); spans = []
    for n in ast.walk(t):
        if isinstance(n, (ast.FunctionDef, ast.AsyncFunctionDef)): spans.append((n.lineno, n.end_lineno, n.name))
    return spans
for fn in ('objects.py', 'functions.py', 'utils.py', '__init__.py'):
    path = os.path.join(REPO, 'fxpmath', fn); ex = exec_lines(path); got = cov.get(fn, set()) & ex
    miss = sorted(ex - got); sp = funcs(path)
    print('%-14s executable %4d  executed %4d  (%.0f%%)' % (fn, len(ex), len(got), 100.0 * len(got) / max(1, len(ex))))
    byf = {}
    for ln in miss:
        name = next((n for a, b, n in sorted(sp, key=lambda t: t[1] - t[0]) if a <= ln <= b), '<module>')
        byf.setdefault(name, []).append(ln)
    for name, lns in sorted(byf.items(), key=lambda t: t[1][0]):
        if '-v' in sys.argv or len(lns) >= 1: print('    %-32s %s' % (name, ' '.join(map(str, lns))[:150]))
