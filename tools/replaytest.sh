#!/bin/bash
# replaytest.sh [seed-dir ...] — end-to-end test of the replay files: for each seeded change, run the property's check
# against a patched scratch copy, then replay every replay file it wrote (a) against the patched copy: must NOT hold,
# (b) against /repo: must hold.  Prints one line per replay file that misbehaves, and a summary.
cd "$(dirname "$0")/.."
DIRS=${@:-seeded/*}
bad=0; n=0
for D in $DIRS; do
  [ -f $D/patch.diff ] || continue
  D=$(readlink -f $D); P=$(python3 -c "import json;print(json.load(open('$D/meta.json')).get('breaks_property') or json.load(open('$D/meta.json'))['property'])")
  T=$(mktemp -d /tmp/fxpverif-rt-XXXX); cp -r /repo/. $T/; rm -rf $T/.git
  (cd $T && patch -p1 --no-backup-if-mismatch < $D/patch.diff > /dev/null 2>&1) || { echo "PATCH FAILED $D"; rm -rf $T; continue; }
  VERIF_REPO=$T VERIF_EVIDENCE_DIR=$T/ev ./check $P --no-build > $T/run.log 2>&1
  for f in $T/ev/replays/$P-*.json; do
    [ -f "$f" ] || continue
    grep -q "replay=$f no-failing-input-found" $T/run.log && continue
    n=$((n+1))
    VERIF_REPO=$T VERIF_EVIDENCE_DIR=$T/ev2 ./check $P --no-build --replay $f > $T/r1.log 2>&1; rc1=$?
    VERIF_EVIDENCE_DIR=$T/ev2 ./check $P --no-build --replay $f > $T/r2.log 2>&1; rc2=$?
    if [ $rc1 -eq 0 ] || [ $rc2 -ne 0 ]; then bad=$((bad+1)); echo "REPLAY-MISBEHAVES $(basename $D) $(basename $f) patched_rc=$rc1 clean_rc=$rc2: $(python3 -c "import json;print(json.load(open('$f')).get('what'))")"; fi
  done
  rm -rf $T
done
echo "replay files tested: $n, misbehaving: $bad"
