#!/bin/bash
# build.sh — build the Coq development (full .vo), extract the model, compile the driver.
# Usage: ./build.sh [--force]   (run under flock by ./check and by setup_cmd)
set -e
set -o pipefail
cd "$(dirname "$0")"
ROOT=$(pwd)
mkdir -p build/ocaml
exec 9>build/.lock
flock 9
# gate: nothing in the development may declare an axiom or switch off a kernel check
if grep -rnE '\b(Admitted|admit|Axiom|Axioms|Parameter|Parameters|Conjecture|Conjectures|Hypothesis|Hypotheses|Variable|Variables|Unset Guard|Unset Positivity|Unset Universe|bypass_check|type-in-type|impredicative-set|Admit Obligations)\b' coq --include='*.v' | grep -vE '^\S+:[0-9]+:\s*\(\*' ; then
  echo "BUILD-GATE: forbidden vernacular found" >&2; exit 3
fi
cd coq
if [ ! -f Makefile ] || [ _CoqProject -nt Makefile ]; then coq_makefile -f _CoqProject -o Makefile >/dev/null; fi
timeout 3000 make -j16 2>&1 | grep -v 'conda' > ../build/make.log || { tail -30 ../build/make.log >&2; echo "BUILD: make failed" >&2; exit 4; }
cd "$ROOT"
# extraction + driver, only when the model changed
if [ ! -x build/driver ] || [ -n "$(find coq -maxdepth 1 -name '*.vo' -newer build/driver 2>/dev/null | head -1)" ] || [ ocaml/driver.ml -nt build/driver ] || [ "$1" = "--force" ]; then
  cp coq/Extract.v build/ocaml/Extract.v
  (cd build/ocaml && timeout 600 coqc -Q ../../coq FxpVerif Extract.v > ../extract.log 2>&1) || { cat build/extract.log >&2; exit 5; }
  cp ocaml/driver.ml build/ocaml/driver.ml
  (cd build/ocaml && timeout 600 ocamlfind ocamlopt -O3 -w -a model.mli model.ml driver.ml -o ../driver.new > ../ocaml.log 2>&1 || timeout 600 ocamlfind ocamlopt -w -a model.mli model.ml driver.ml -o ../driver.new > ../ocaml.log 2>&1) || { cat build/ocaml.log >&2; exit 6; }
  mv build/driver.new build/driver
fi
echo "BUILD OK"
