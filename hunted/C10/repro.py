#!/usr/bin/env python
"""Reproducers for the C10 hunt (format conversion gives the same correctly quantized value by every route).
fxpmath is imported from $FXP_REPO (default /tmp/wth-C10).  Exit code 1 if any VIOLATION reproduces."""
import os, sys, warnings
sys.path.insert(0, os.environ.get('FXP_REPO', '/tmp/wth-C10'))
warnings.simplefilter('ignore')
import numpy as np
from fractions import Fraction
from fxpmath import Fxp

violations = 0

def codes(x):
    return [int(v) for v in np.asarray(x.val).flatten()]

def violation(title, got, expected):
    global violations
    violations += 1
    print('VIOLATION %s: got %r expected %r' % (title, got, expected))

def ok(title):
    print('ok        %s: does not reproduce' % title)

def borderline(title, got, expected):
    print('BORDERLINE %s: got %r expected %r' % (title, got, expected))


# ---------------------------------------------------------------------------------------------
# F1  source whose vdtype is a narrow NumPy dtype (built from a list of NumPy scalars, e.g. list(int32_array)):
#     the routes that pass the Fxp itself (constructor, like=, call/set_val, indexed assignment) cast the
#     re-scaled raw codes to that narrow dtype -> silently wrapped codes, no status flag; equal()/like()/resize are right.
a = np.array([100000, 3], dtype=np.int32)
src = Fxp(list(a), True, 40, 0)                  # codes [100000, 3], stored correctly, clean status
assert codes(src) == [100000, 3]
exp = [100000 << 16, 3 << 16]                    # exactly representable in s40/16
title = 'F1 int32-vdtype source, s40/0 -> s40/16'
res = {
    'Fxp(src, True, 40, 16)': codes(Fxp(src, True, 40, 16)),
    'Fxp(src, like=dst)': codes(Fxp(src, like=Fxp(0, True, 40, 16))),
    'dst(src)': codes(Fxp([0, 0], True, 40, 16)(src)),
    'dst.set_val(src)': codes(Fxp([0, 0], True, 40, 16).set_val(src)),
    'dst.equal(src)': codes(Fxp([0, 0], True, 40, 16).equal(src)),
    'src.like(dst)': codes(src.like(Fxp(0, True, 40, 16))),
}
d = Fxp([0, 0], True, 40, 16); d[0] = src[0]; d[1] = src[1]
res['dst[i] = src[i]'] = codes(d)
s2 = src.deepcopy(); s2.resize(True, 40, 16)
res['resize'] = codes(s2)
bad = {k: v for k, v in res.items() if v != exp}
if bad:
    for k, v in bad.items():
        violation('%s via %s' % (title, k), v, exp)
    st = Fxp(src, True, 40, 16).status
    print('          (status of the wrong constructor result: %r; agreeing routes: %r)' % (st, sorted(set(res) - set(bad))))
else:
    ok(title)

# F1b same mechanism with float32 scalars: a saturated code (39 significant bits) is rounded through float32
f = np.array([3.0, 0.5], dtype=np.float32)
src = Fxp(list(f), True, 40, 38)                 # 3.0 saturates to code 2**39-1
exp = codes(src)                                 # s48/38 holds every s40/38 code exactly
got = codes(Fxp(src, True, 48, 38))
if got != exp:
    violation('F1b float32-vdtype source, s40/38 -> s48/38 via constructor', got, exp)
else:
    ok('F1b')

# ---------------------------------------------------------------------------------------------
# F2  stale integer vdtype: an object that was given integer values keeps vdtype=int through resize / raw
#     assignment of another Fxp; the stored code is right but the value read back (get_val(), x(), str, repr,
#     np.asarray(x), comparisons) is floor(code*2^-n_frac) instead of code*2^-n_frac.
x = Fxp(5, True, 8, 0)
x.resize(True, 8, 6)                              # 5 saturates to code 127 = 1.984375
exp_val = Fraction(127, 64)
got_val = Fraction(float(np.asarray(x.get_val())))
if int(x.val) == 127 and got_val != exp_val:
    violation('F2 Fxp(5,s8/0).resize(s8/6): code 127 but get_val()', float(got_val), float(exp_val))
    print('          (x == 1.984375 -> %r, str(x) = %s, astype(float) = %r; Fxp(Fxp(5,True,8,0),True,8,6)() = %r)'
          % (bool(x == 1.984375), str(x), float(x.astype(float)), float(Fxp(Fxp(5, True, 8, 0), True, 8, 6)())))
else:
    ok('F2')

# F2b two-step history, no overflow involved: int-valued object resized to a fractional format, then assigned a
#     fractional Fxp by equal() / call; and the like= route with an int-typed template disagrees with like()
x = Fxp(5, True, 8, 0); x.resize(True, 8, 2); x.equal(Fxp(1.25, True, 8, 2))
got_val = Fraction(float(np.asarray(x.get_val())))
if int(x.val) == 5 and got_val != Fraction(5, 4):
    violation('F2b resize then equal(): code 5 in s8/2 but get_val()', float(got_val), 1.25)
else:
    ok('F2b')
t = Fxp(0, True, 8, 0); t.resize(True, 8, 2)      # template / destination with stale int vdtype
a_ = Fxp(Fxp(1.25, True, 16, 8), like=t)
b_ = Fxp(1.25, True, 16, 8).like(t)
ga, gb = float(np.asarray(a_.get_val())), float(np.asarray(b_.get_val()))
if ga != gb or ga != 1.25:
    violation('F2c Fxp(src, like=t)() vs src.like(t)() (same code %r / %r)' % (codes(a_), codes(b_)), (ga, gb), (1.25, 1.25))
else:
    ok('F2c')

# ---------------------------------------------------------------------------------------------
# F3  status of the destination differs between routes: the routes that pass the Fxp itself copy the source's
#     inaccuracy flag into the destination even when the conversion is exact; equal() and like() do not.
src = Fxp(0.3, True, 8, 4)                        # code 4 (=0.25), inaccuracy=True on the SOURCE
mk = lambda: Fxp(0, True, 8, 4)                   # same format: conversion is exact
flags = {
    'Fxp(src, True, 8, 4)': Fxp(src, True, 8, 4).status['inaccuracy'],
    'Fxp(src, like=dst)': Fxp(src, like=mk()).status['inaccuracy'],
    'dst(src)': mk()(src).status['inaccuracy'],
    'dst.equal(src)': mk().equal(src).status['inaccuracy'],
    'src.like(dst)': src.like(mk()).status['inaccuracy'],
}
d = Fxp([0, 0], True, 8, 4); d[0] = src; flags['dst[0] = src'] = d.status['inaccuracy']
d = Fxp([0, 0], True, 8, 4); d.equal(src, index=0); flags['dst.equal(src, index=0)'] = d.status['inaccuracy']
if len(set(flags.values())) > 1:
    violation('F3 inaccuracy flag of destination after an exact conversion differs by route', flags, 'one value on every route')
else:
    ok('F3')

# ---------------------------------------------------------------------------------------------
# borderline items (not counted in the exit code)
x = Fxp(3.75, True, 8, 2); y = x.copy(); y.resize(True, 3, 0)
if x.status['inaccuracy']:
    borderline('B1 x.copy().resize(...) sets flags on x (copy() shares status/config dicts)', dict(x.status), 'x.status unchanged (all False)')
q = Fxp(0.001, True, 8, 10).get_dtype('Q')
try:
    z = Fxp(0.5, True, 16, 8); z.resize(dtype=q)
except ValueError as e:
    borderline('B2 resize(dtype=%r) with the library\'s own Q string for n_frac > n_word' % q, repr(e), 'format s8/10')
u = Fxp(200, False, 8, 0)
try:
    u.resize(signed=True, dtype='fxp-s8/0')
except ValueError:
    if u.signed and int(u.val) == 200:
        borderline('B3 rejected resize(signed=True, dtype=...) leaves the object half-changed', (u.signed, int(u.val), u.dtype), (False, 200, 'fxp-u8/0'))
c = Fxp([0, 0], True, 6, 1)(Fxp([1.75 - 2.25j, 3.5 + 0.25j], True, 8, 2))
gv = np.asarray(c.get_val())
if not np.iscomplexobj(gv):
    borderline('B4 complex source assigned to a real-typed array destination: codes %r but get_val()' % (c.val.tolist(),), gv.tolist(), [1.5 - 2j, 3.5 + 0j])

sys.exit(1 if violations else 0)
