#!/usr/bin/env python
"""C13 reproducers. fxpmath is imported from $FXP_REPO (default /repo)."""
import os, sys, warnings
sys.path.insert(0, os.environ.get('FXP_REPO', '/repo'))
warnings.simplefilter('ignore')
import numpy as np
from fxpmath import Fxp

violations = 0

def patterns(f):
    m = (1 << f.n_word) - 1
    return [int(v) & m for v in np.asarray(f.val).flatten()]

def run(title, fn, expected, like):
    """fn() must return a Fxp of `like`'s format whose n_word-bit patterns equal `expected`."""
    global violations
    try:
        r = fn()
        got = (patterns(r), r.dtype, r.shape)
    except Exception as e:
        got = '%s: %s' % (type(e).__name__, e)
    exp = (expected, like.dtype, like.shape)
    if got != exp:
        violations += 1
        print('VIOLATION %s: got %s expected %s' % (title, got, exp))
    else:
        print('ok        %s' % title)

# ---------------------------------------------------------------- finding 1
# x OP y with two fixed-point ARRAYS of the same word length (oracle: Python ints on the 8-bit codes)
ca, cb = [0x01, 0xFE, 0x03, 0x80], [0x0F, 0xF0, 0xAA, 0xFF]
def s8(c): return c - 256 if c >= 128 else c
for sx, sy in ((True, True), (True, False), (False, True), (False, False)):
    x = Fxp([s8(c) if sx else c for c in ca], signed=sx, n_word=8, n_frac=4, raw=True)
    y = Fxp([s8(c) if sy else c for c in cb], signed=sy, n_word=8, n_frac=4, raw=True)
    tag = '%s8 %s8' % ('su'[not sx], 'su'[not sy])
    run('F1 array & array (%s)' % tag, lambda: x & y, [a & b for a, b in zip(ca, cb)], x)
    run('F1 array | array (%s)' % tag, lambda: x | y, [a | b for a, b in zip(ca, cb)], x)
    run('F1 array ^ array (%s)' % tag, lambda: x ^ y, [a ^ b for a, b in zip(ca, cb)], x)

# De Morgan on arrays cannot even be evaluated
x = Fxp([s8(c) for c in ca], True, 8, 4, raw=True); y = Fxp([s8(c) for c in cb], True, 8, 4, raw=True)
run('F1 De Morgan ~(x & y) == ~x | ~y on arrays', lambda: (~x) | (~y), [(~(a & b)) & 0xFF for a, b in zip(ca, cb)], x)

# 2-D, size-1 arrays, wide words (object storage)
x2 = Fxp([[1, -2], [3, -128]], True, 8, 0, raw=True)
run('F1 2-D & 2-D', lambda: x2 & x2, [1, 0xFE, 3, 0x80], x2)
x1 = Fxp([5], True, 8, 0, raw=True); y1 = Fxp([3], True, 8, 0, raw=True)
run('F1 size-1 array & size-1 array', lambda: x1 & y1, [1], x1)
xw = Fxp([2**64 - 1, 2**63, 5], False, 64, 0, raw=True); yw = Fxp([2**63 + 1, 2**63, 4], False, 64, 0, raw=True)
run('F1 array ^ array (u64, object storage)', lambda: xw ^ yw, [(2**64 - 1) ^ (2**63 + 1), 0, 1], xw)

# AND is not commutative over carriers: array & scalar works, scalar & array raises
xs = Fxp(0x0F, True, 8, 0, raw=True)
ya = Fxp([1, -2, 3], True, 8, 0, raw=True)
run('F1 (control) array & 0-d Fxp', lambda: ya & xs, [1, 0x0E, 3], ya)
class _shape3:  # expected: x's format (s8/0); the only sensible shape is the broadcast one
    dtype = xs.dtype; shape = (3,)
run('F1 0-d Fxp & array', lambda: xs & ya, [1, 0x0E, 3], _shape3)

# ---------------------------------------------------------------- borderline (not counted in the exit code)
def borderline(title, got, exp):
    print('%s %s: got %s expected %s' % ('BORDERLINE' if got != exp else 'ok        ', title, got, exp))

# B1: array of integer masks (the property says "an integer bit mask"; a mask per element is arguably outside)
try: got = patterns(ya & np.array([3, 3, 3]))
except Exception as e: got = '%s: %s' % (type(e).__name__, e)
borderline('B1 array & ndarray of integer masks', got, [1, 2, 3])

# B2: "~x == -x - LSB for signed x" evaluated with the library's own unary minus at the most negative code
xm = Fxp(-128, True, 8, 4, raw=True)
lhs = ~xm; rhs = -xm - Fxp(1, True, 8, 4, raw=True)
borderline('B2 ~x == -x - LSB at x = most negative code (library unary minus saturates)', bool(lhs == rhs), True)

sys.exit(1 if violations else 0)
