#!/usr/bin/env python
"""C01 reproducers: storing a value must give code = OVERFLOW(ROUND(v*2^n_frac)) exactly, whatever the carrier / method.

fxpmath is imported from $FXP_REPO (default /tmp/wth-C01).
Prints one line per reproducing case: "VIOLATION <title>: got ... expected ...".
Exit code 1 if any in-quantifier violation reproduces, 0 otherwise.
Borderline findings (arguably outside the quantifier) are printed as "VIOLATION [borderline] ..." but only count
towards the exit code when FXP_STRICT=1.
"""
import os, sys, math, warnings
sys.path.insert(0, os.environ.get('FXP_REPO', '/tmp/wth-C01'))
from fractions import Fraction
from decimal import Decimal
import numpy as np
from fxpmath import Fxp

warnings.simplefilter('ignore')


# ---------- exact oracle (Python ints / Fractions only) ----------
def o_round(q, mode):
    if mode in ('trunc', 'fix'):
        return int(q)                      # Fraction -> int truncates toward zero
    if mode == 'floor':
        return math.floor(q)
    if mode == 'ceil':
        return math.ceil(q)
    if mode == 'around':
        f = math.floor(q)
        r = q - f
        if r != Fraction(1, 2):
            return f + (1 if r > Fraction(1, 2) else 0)
        return f if f % 2 == 0 else f + 1
    raise ValueError(mode)


def o_overflow(k, signed, n_word, mode):
    lo, hi = (-(1 << (n_word - 1)), (1 << (n_word - 1)) - 1) if signed else (0, (1 << n_word) - 1)
    if mode == 'saturate':
        return max(lo, min(hi, k))
    k %= (1 << n_word)
    return k - (1 << n_word) if signed and k > hi else k


def oracle(v, signed, n_word, n_frac, rounding='trunc', overflow='saturate'):
    """v: anything Fraction() accepts exactly (int, float, Fraction, decimal string)."""
    return o_overflow(o_round(Fraction(v) * Fraction(2) ** n_frac, rounding), signed, n_word, overflow)


def codes(x):
    return [int(c) for c in np.asarray(x.val).flatten()]


def ccodes(x):
    return [(int(c.real), int(c.imag)) for c in np.asarray(x.val).flatten()]


# ---------- cases ----------
CASES = []   # (borderline, title, thunk -> (got, expected))


def case(title, borderline=False):
    def deco(fn):
        CASES.append((borderline, title, fn))
        return fn
    return deco


# F1: list / tuple of narrow NumPy scalars keeps the narrow dtype for the whole computation
@case('F1a list of np.int8 scalars: product v*2^n_frac wraps in int8')
def _():
    kw = dict(signed=True, n_word=16, n_frac=2)
    return codes(Fxp([np.int8(100)], **kw)), [oracle(100, **kw)]


@case('F1b list(np.arange(...,dtype=int16)) vs the same ndarray (carrier dependence)')
def _():
    kw = dict(signed=True, n_word=32, n_frac=4)
    a = np.array([20000, -20000, 3], dtype=np.int16)
    return codes(Fxp(list(a), **kw)), [oracle(int(v), **kw) for v in a]


@case('F1c tuple of np.uint32, wrap mode: wrong code and wrong result of the wrap')
def _():
    kw = dict(signed=True, n_word=33, n_frac=13, rounding='floor', overflow='wrap')
    return codes(Fxp((np.uint32(524288),), **kw)), [oracle(524288, **kw)]


@case('F1d list of np.int8, 2^n_frac does not fit int8: OverflowError instead of a code')
def _():
    kw = dict(signed=True, n_word=24, n_frac=8)
    try:
        got = codes(Fxp([np.int8(1)], **kw))
    except Exception as e:
        got = 'EXC %s: %s' % (type(e).__name__, e)
    return got, [oracle(1, **kw)]


@case('F1e list of np.float16: v*2^n_frac overflows float16 to inf -> saturates although in range')
def _():
    kw = dict(signed=True, n_word=20, n_frac=10)
    return codes(Fxp([np.float16(100.0)], **kw)), [oracle(100, **kw)]


@case('F1f list of np.float16, indexed assignment, wrap: 0.5 -> inf -> garbage / exception')
def _():
    kw = dict(signed=True, n_word=25, n_frac=25, rounding='around', overflow='wrap')
    x = Fxp([0.0], **kw)
    try:
        x[0:1] = [np.float16(0.5)]
        got = codes(x)
    except Exception as e:
        got = 'EXC %s: %s' % (type(e).__name__, e)
    return got, [oracle(0.5, **kw)]


@case('F1g list of np.float32: saturation limit rounded to float32 -> stored code ABOVE the maximum code')
def _():
    kw = dict(signed=True, n_word=26, n_frac=0)
    # first element in range (so that the vectorised clip works in float32), second one above the range
    return codes(Fxp([np.float32(1.0), np.float32(2.0 ** 26)], **kw)), [oracle(1, **kw), oracle(2 ** 26, **kw)]


@case('F1h list of np.float32: value read back is rounded to float32, not code*2^-n_frac')
def _():
    kw = dict(signed=False, n_word=32, n_frac=0)
    x = Fxp([np.float32(2.0 ** 35)], **kw)            # saturates to code 2^32-1 (correct)
    c = codes(x)[0]
    rb = Fraction(float(np.asarray(x.get_val()).flatten()[0]))
    return ('code', c, 'readback', rb), ('code', c, 'readback', Fraction(oracle(2 ** 35, **kw)))


# F2: decimal strings carried by NumPy (np.str_ scalar / string ndarray) with n_frac == 0
@case('F2a np.str_ decimal string, n_frac=0: truncated toward zero before the configured rounding')
def _():
    kw = dict(signed=True, n_word=8, n_frac=0, rounding='around')
    return codes(Fxp(np.str_('2.7'), **kw)), [oracle('2.7', **kw)]


@case('F2b ndarray of decimal strings vs list of the same strings, n_frac=0, floor')
def _():
    kw = dict(signed=True, n_word=8, n_frac=0, rounding='floor')
    s = ['-2.5', '3.75']
    return codes(Fxp(np.array(s), **kw)), [oracle(v, **kw) for v in s]


# F4: underflow of v*2^n_frac in float64 for n_frac<0
@case('F4a smallest positive float, n_frac=-1, ceil: product underflows to 0.0')
def _():
    kw = dict(signed=True, n_word=8, n_frac=-1, rounding='ceil')
    return codes(Fxp(5e-324, **kw)), [oracle(5e-324, **kw)]


@case('F4b -5e-324, unsigned wrap, floor, n_frac=-8: expected code 2^8-1')
def _():
    kw = dict(signed=False, n_word=8, n_frac=-8, rounding='floor', overflow='wrap')
    return codes(Fxp(np.array([-5e-324]), **kw)), [oracle(-5e-324, **kw)]


# F5: np.longdouble scalar is squeezed through float64 first (0-d / 1-d longdouble arrays are not)
@case('F5 np.longdouble scalar double-rounded via float(); same value in an array is stored correctly')
def _():
    if np.finfo(np.longdouble).nmant <= 52:
        return 'skipped', 'skipped'          # platform without extended precision
    kw = dict(signed=True, n_word=8, n_frac=0, rounding='floor')
    v = np.longdouble(1) - np.longdouble(2) ** -60           # exactly 1 - 2^-60 (< 1)
    exact = Fraction(1) - Fraction(1, 2 ** 60)
    assert Fraction(*[int(t) for t in v.as_integer_ratio()]) == exact
    e = oracle(exact, **kw)
    return ('scalar', codes(Fxp(v, **kw)), 'array', codes(Fxp(np.array([v]), **kw))), ('scalar', [e], 'array', [e])


# ---- borderline ----
@case('F3 object ndarray whose first element is an int: float elements truncated before rounding', borderline=True)
def _():
    kw = dict(signed=True, n_word=8, n_frac=0, rounding='around')
    return codes(Fxp(np.array([1, 2.7, -3.5001], dtype=object), **kw)), [oracle(v, **kw) for v in (1, 2.7, -3.5001)]


@case('F6 complex value assigned by index into an Fxp array built from reals: imaginary code silently dropped', borderline=True)
def _():
    kw = dict(signed=True, n_word=8, n_frac=2)
    x = Fxp([0.5, 1.5], **kw)
    x[0] = 1 + 2j
    c = np.asarray(x.val).flatten()[0]
    return (int(c.real), int(c.imag)), (oracle(1, **kw), oracle(2, **kw))


@case('F7a decimal.Decimal input ignores the configured rounding (always truncates)', borderline=True)
def _():
    kw = dict(signed=True, n_word=8, n_frac=0, rounding='around')
    return codes(Fxp(Decimal('2.7'), **kw)), [oracle('2.7', **kw)]


@case('F7b decimal string with more digits than a float holds is rounded to float64 first', borderline=True)
def _():
    kw = dict(signed=True, n_word=8, n_frac=0, rounding='floor')
    s = '0.99999999999999999999'
    return codes(Fxp(s, **kw)), [oracle(s, **kw)]


def main():
    strict = os.environ.get('FXP_STRICT', '') not in ('', '0')
    n_in, n_border = 0, 0
    for borderline, title, fn in CASES:
        try:
            got, exp = fn()
        except Exception as e:          # an unexpected crash inside a reproducer is itself reported
            got, exp = 'EXC %s: %s' % (type(e).__name__, e), 'a stored code'
        if got != exp:
            print('VIOLATION %s%s: got %s expected %s' % ('[borderline] ' if borderline else '', title, got, exp))
            if borderline:
                n_border += 1
            else:
                n_in += 1
        else:
            print('ok        %s%s' % ('[borderline] ' if borderline else '', title))
    print('%d in-quantifier violation(s), %d borderline' % (n_in, n_border))
    return 1 if (n_in or (strict and n_border)) else 0


if __name__ == '__main__':
    sys.exit(main())
