#!/usr/bin/env python
"""
C17 (scale / bias = exact affine wrapper around the stored code): re-check of every finding of findings.md.
Prints one line per finding ("VIOLATION ..." or "holds ..."); exit status 1 if a clearly-inside finding is violated.
The expected values come from an exact oracle (Python ints / fractions.Fraction), never from floats.
"""
import sys, os, math, warnings
sys.path.insert(0, os.environ.get('FXP_REPO', '/repo'))
warnings.filterwarnings('ignore')
import numpy as np
from fractions import Fraction as F
from fxpmath import Fxp


# ---------------------------------------------------------------- exact oracle
def rnd(q, method):
    if method in ('trunc', 'fix'): return math.trunc(q)
    if method == 'floor': return math.floor(q)
    if method == 'ceil': return math.ceil(q)
    if method == 'around': return round(q)          # Fraction: ties to even
    raise ValueError(method)

def limits(signed, n_word):
    return (-(1 << (n_word - 1)), (1 << (n_word - 1)) - 1) if signed else (0, (1 << n_word) - 1)

def oracle(v, signed, n_word, n_frac, rounding='trunc', overflow='saturate', s=1, b=0):
    """code, value read back, flags - for storing the real v into a (signed, n_word, n_frac) object with scale s and bias b"""
    v, s, b = F(v), F(s), F(b)
    u = (v - b) / s
    r = rnd(u * F(2) ** n_frac, rounding)
    lo, hi = limits(signed, n_word)
    if overflow == 'saturate':
        code = min(max(r, lo), hi)
    else:
        code = r % (1 << n_word)
        if signed and code > hi: code -= 1 << n_word
    read = s * code * F(2) ** (-n_frac) + b
    return code, read, dict(overflow=r > hi, underflow=r < lo, inaccuracy=F(code) * F(2) ** (-n_frac) != u)

def flags(x):
    return {k: bool(x.status[k]) for k in ('overflow', 'underflow', 'inaccuracy')}

def first(a):
    return np.asarray(a).reshape(-1)[0]

NOFLAGS = dict(overflow=False, underflow=False, inaccuracy=False)
results = []    # (inside?, violated?)

def report(name, inside, violated, detail):
    results.append((inside, violated))
    print('{} [{}] {}: {}'.format('VIOLATION' if violated else 'holds', 'inside' if inside else 'borderline', name, detail))

def guarded(name, inside):
    def deco(f):
        try:
            violated, detail = f()
        except Exception as e:      # an exception where a value must be stored is a violation too
            violated, detail = True, 'raised {!r}'.format(e)
        report(name, inside, violated, detail)
    return deco


# ================================================================ clearly inside
@guarded('I1a complex value, scale 49 (k/2^j with k=49): stored code', True)
def _():
    x = Fxp(49 + 0j, True, 16, 4, scale=49)                      # defaults: trunc, saturate
    code, read, fl = oracle(49, True, 16, 4, 'trunc', 'saturate', 49, 0)
    got = complex(x.val); g = complex(x.get_val())
    bad = got != complex(code, 0) or F(g.real) != read or flags(x) != fl
    return bad, 'code {} value {} flags {}; exact: code {} value {} flags {}'.format(got, g, flags(x), code, read, fl)

@guarded('I1b complex value, scale 49/8, around: spurious inaccuracy flag', True)
def _():
    s = F(49, 8)
    x = Fxp(complex(float(3 * s), float(-2 * s)), True, 16, 4, scale=float(s), rounding='around')
    cr, rr, fr = oracle(3 * s, True, 16, 4, 'around', 'saturate', s, 0)
    ci, ri, fi = oracle(-2 * s, True, 16, 4, 'around', 'saturate', s, 0)
    fl = {k: fr[k] or fi[k] for k in fr}
    bad = complex(x.val) != complex(cr, ci) or flags(x) != fl
    return bad, 'code {} flags {}; exact: code {} flags {}'.format(complex(x.val), flags(x), complex(cr, ci), fl)

@guarded('I1c complex value, scale 49: size inference sizes the transformed value', True)
def _():
    x = Fxp(49 + 98j, scale=49)
    r = Fxp(1 + 2j)                 # the transformed value (v - b)/s = 1+2j, exactly
    bad = (x.signed, x.n_word, x.n_frac) != (r.signed, r.n_word, r.n_frac)
    return bad, 'inferred {} ; the transformed value 1+2j is sized {}'.format(x.dtype, r.dtype)

@guarded('I1d complex values: sweep over scales 49/2^j, 75/2^j, 77/2^j, all roundings', True)
def _():
    n = nbad = 0
    for k in (49, 75, 77, -49):
        for j in (0, 3, 5):
            s = F(k, 1 << j)
            for rounding in ('trunc', 'around', 'floor', 'ceil', 'fix'):
                for m in range(-40, 41, 7):
                    u = F(m, 4)                      # quarter-LSB grid of a /2 format
                    v = u * s
                    x = Fxp(complex(float(v), float(v)), True, 12, 2, scale=float(s), rounding=rounding)
                    code, read, fl = oracle(v, True, 12, 2, rounding, 'saturate', s, 0)
                    n += 1
                    if complex(x.val) != complex(code, code) or flags(x) != fl: nbad += 1
    return nbad > 0, '{} of {} stores differ from the exact oracle (code and/or flags)'.format(nbad, n)

@guarded('I2a list of np.uint64 scalars into a scaled object: stored code', True)
def _():
    x = Fxp([np.uint64(5)], True, 8, 2, scale=2, bias=0)
    code, read, fl = oracle(5, True, 8, 2, 'trunc', 'saturate', 2, 0)
    got = int(first(x.val)); g = F(float(first(x.get_val())))
    return (got != code or g != read or flags(x) != fl), 'code {} value {} flags {}; exact: code {} value {} flags {}'.format(got, g, flags(x), code, read, fl)

@guarded('I2b tuple of np.uint64 scalars, bias 0.5, around, through set_val', True)
def _():
    x = Fxp(None, True, 8, 2, scale=1, bias=0.5, rounding='around'); x.reset()
    x.set_val((np.uint64(5), np.uint64(7)))
    exp = [oracle(v, True, 8, 2, 'around', 'saturate', 1, F(1, 2)) for v in (5, 7)]
    got = [int(c) for c in x.val]
    fl = {k: any(e[2][k] for e in exp) for k in NOFLAGS}
    return (got != [e[0] for e in exp] or flags(x) != fl), 'codes {} flags {}; exact: codes {} flags {}'.format(got, flags(x), [e[0] for e in exp], fl)

@guarded('I2c list of np.uint64 scalars, negative scale: the store raises', True)
def _():
    x = Fxp([np.uint64(7)], True, 12, 3, scale=-4, bias=1)
    code, read, fl = oracle(7, True, 12, 3, 'trunc', 'saturate', -4, 1)
    got = int(first(x.val))
    return got != code, 'code {}; exact: code {}'.format(got, code)

@guarded('I2d list of np.uint64 scalars: size inference sizes the transformed value', True)
def _():
    x = Fxp([np.uint64(5)], scale=2, bias=0)
    r = Fxp([2.5])
    got = F(float(first(x.get_val())))
    bad = (x.signed, x.n_word, x.n_frac) != (r.signed, r.n_word, r.n_frac) or got != 5
    return bad, 'inferred {} reads {}; the transformed value 2.5 is sized {} and the object must read 5'.format(x.dtype, got, r.dtype)

@guarded('I3a np.complex64 carrier: affine map computed in single precision (bias removal)', True)
def _():
    v = F(1, 2 ** 26)
    x = Fxp(np.complex64(float(v)), True, 16, 14, rounding='ceil', scale=1, bias=-1.0)
    code, read, fl = oracle(v, True, 16, 14, 'ceil', 'saturate', 1, -1)
    got = complex(x.val)
    return (got != complex(code, 0) or flags(x) != fl), 'code {} flags {}; exact: code {} flags {} (complex(v) and np.float32(v) give the exact code)'.format(got, flags(x), code, fl)

@guarded('I3b np.complex64 array carrier, scale 1/2, bias 1+2^-30, floor', True)
def _():
    b = F(1) + F(1, 2 ** 30)
    x = Fxp(np.array([5], dtype=np.complex64), True, 16, 4, rounding='floor', scale=0.5, bias=float(b))
    code, read, fl = oracle(5, True, 16, 4, 'floor', 'saturate', F(1, 2), b)
    got = complex(first(x.val))
    return (got != complex(code, 0) or flags(x) != fl), 'code {} flags {}; exact: code {} flags {}'.format(got, flags(x), code, fl)


# ================================================================ borderline
@guarded('B1 equal(): an (unscaled) Fxp stored into a scaled object by equal()', False)
def _():
    x = Fxp(0, True, 8, 2, scale=2, bias=1); x.reset()
    y = Fxp(3.0, True, 8, 2)
    x.equal(y)
    code, read, fl = oracle(3, True, 8, 2, 'trunc', 'saturate', 2, 1)
    x2 = Fxp(0, True, 8, 2, scale=2, bias=1); x2.set_val(y)
    return (int(x.val) != code or F(float(x.get_val())) != read), 'equal: code {} value {}; exact (and set_val(y): code {}): code {} value {}'.format(int(x.val), x.get_val(), int(x2.val), code, read)

@guarded('B2 like(): y.like(scaled x) transplants the code', False)
def _():
    x = Fxp(0, True, 8, 2, scale=2, bias=1)
    y = Fxp(3.0, True, 8, 2)
    z = y.like(x)
    code, read, fl = oracle(3, True, 8, 2, 'trunc', 'saturate', 2, 1)
    return (int(z.val) != code or F(float(z.get_val())) != read), 'code {} value {} (scale {} bias {}); value 3 in that object is code {}'.format(int(z.val), z.get_val(), z.scale, z.bias, code)

@guarded('B3a indexing a scaled array gives an element object with spurious flags', False)
def _():
    a = Fxp([1.0, 1.25], False, 8, 2, scale=1, bias=1)
    e = a[1]
    return (flags(a) == NOFLAGS and flags(e) != NOFLAGS), 'array flags {}; a[1] flags {} (value {})'.format(flags(a), flags(e), e.get_val())

@guarded('B3b default-constructed scaled object (val=None, like=): code is not 0 and flags are raised', False)
def _():
    t = Fxp(None, False, 8, 2, scale=1, bias=1)
    return (flags(t) != NOFLAGS), 'Fxp(None, u8/2, scale=1, bias=1): code {} flags {}'.format(int(t.val), flags(t))

@guarded('B4 bool carrier into a scaled object', False)
def _():
    x = Fxp(True, True, 8, 2, scale=2, bias=0)
    code, read, fl = oracle(1, True, 8, 2, 'trunc', 'saturate', 2, 0)
    return (int(x.val) != code or F(float(x.get_val())) != read), 'code {} value {}; exact: code {} value {} (an unscaled Fxp(True, s8/2) raises OverflowError: bool is not a supported carrier at all)'.format(int(x.val), x.get_val(), code, read)

@guarded('B5 bias given as a 0-d ndarray, integer input', False)
def _():
    x = Fxp(3, True, 8, 2, scale=1, bias=np.array(0.5))
    code, read, fl = oracle(3, True, 8, 2, 'trunc', 'saturate', 1, F(1, 2))
    return (int(x.val) != code or F(float(x.get_val())) != read), 'code {} value {}; exact: code {} value {}'.format(int(x.val), x.get_val(), code, read)

@guarded('B6 object array of NumPy integers (value type taken from the first element)', False)
def _():
    o = np.empty(2, dtype=object); o[0] = np.int32(5); o[1] = 7
    x = Fxp(o, True, 8, 2, scale=2, bias=0)
    o2 = np.empty(2, dtype=object); o2[0] = 7; o2[1] = np.int32(5)
    x2 = Fxp(o2, True, 8, 2, scale=2, bias=0)
    exp = [oracle(v, True, 8, 2, 'trunc', 'saturate', 2, 0)[0] for v in (5, 7)]
    got = [int(c) for c in x.val]; got2 = [int(c) for c in x2.val][::-1]
    return (got != exp or got2 != exp), '[np.int32(5), 7] -> codes {}; [7, np.int32(5)] -> codes {} (reversed); exact: {}'.format(got, got2, exp)

@guarded('B7a unary minus / abs / >> of a scaled object work on the code and drop the scaling', False)
def _():
    x = Fxp(132.0, True, 8, 2, scale=16, bias=100)          # code 8
    y = -x
    return (F(float(y.get_val())) != -132), 'x reads {}; (-x) reads {} (scale {} bias {})'.format(x.get_val(), y.get_val(), y.scale, y.bias)

@guarded('B7b x + 0 / x * 1 / np.transpose(x) of a scaled object: unscaled result in the sizes of the codes saturates (x.T keeps the scaling)', False)
def _():
    x = Fxp([[100., 116.], [132., 148.]], True, 8, 2, scale=16, bias=100)
    y = x + 0; t1 = np.transpose(x); t2 = x.T
    bad = not np.array_equal(np.asarray(y.get_val()), np.asarray(x.get_val())) or not np.array_equal(np.asarray(t1.get_val()), np.asarray(t2.get_val()))
    return bad, 'x+0 reads {}; np.transpose(x) reads {}; x.T reads {}'.format(np.asarray(y.get_val()).tolist(), np.asarray(t1.get_val()).tolist(), np.asarray(t2.get_val()).tolist())

@guarded('B8 int(x) of a scaled object floors the unscaled value before the affine map', False)
def _():
    x = Fxp(3.0, True, 8, 2, scale=0.5, bias=0.25)          # value exactly 3.0 (code 22)
    return (int(x) != 3), 'x reads {}; int(x) = {}'.format(x.get_val(), int(x))


# ---------------------------------------------------------------- summary
inside_violated = [1 for inside, violated in results if inside and violated]
sys.exit(1 if inside_violated else 0)
