#!/usr/bin/env python
"""Re-checks the C10 hunt findings against exact (Python int / Fraction) oracles.
Prints one line per finding ("VIOLATION ..." or "holds ..."); exit status 1 if a clearly-inside finding is violated."""
import sys, os, math, warnings
sys.path.insert(0, os.environ.get('FXP_REPO', '/repo'))
warnings.filterwarnings('ignore')
import numpy as np
from fractions import Fraction
from fxpmath import Fxp


def rnd(q, m):
    if m == 'around': return round(q)           # ties to even (np.around)
    if m == 'floor': return math.floor(q)
    if m == 'ceil': return math.ceil(q)
    return math.trunc(q)                        # trunc / fix


def quant(value, signed, n_word, n_frac, rounding='trunc', overflow='saturate'):
    """exact value (Fraction) -> raw code of the destination format"""
    r = rnd(Fraction(value) * Fraction(2) ** n_frac, rounding)
    lo, hi = (-(1 << (n_word - 1)), (1 << (n_word - 1)) - 1) if signed else (0, (1 << n_word) - 1)
    if overflow == 'saturate':
        return max(lo, min(hi, r))
    r &= (1 << n_word) - 1
    return r - (1 << n_word) if signed and r >= (1 << (n_word - 1)) else r


def codes(f):
    return [int(v) for v in np.asarray(f.val).flatten().tolist()]


def values(f):
    """exact stored values of an unscaled object"""
    return [Fraction(c) / Fraction(2) ** f.n_frac for c in codes(f)]


results = []    # (id, inside?, violated?, text)


def report(fid, inside, violated, text):
    results.append((fid, inside, violated))
    print('%s %s [%s] %s' % ('VIOLATION' if violated else 'holds', fid, 'inside' if inside else 'borderline', text))


def guarded(fid, inside, fn):
    try:
        fn()
    except Exception as e:      # an unexpected exception while re-checking counts as a violation of that finding
        report(fid, inside, True, 'unexpected exception %r' % (e,))


# ---------------------------------------------------------------------------------------------------------------
# F1 (inside): the constructor / set_val / call / indexed-assignment routes cast the rescaled raw codes of the source
#     to the *value type of the source* (vdtype).  A source whose value type is unsigned (list of np.uint64) but whose
#     stored codes are negative (wrapped at construction, or after equal()/resize) is converted to garbage, while
#     resize / like() / equal() give the right answer.
def f1():
    x = Fxp([np.uint64(3), np.uint64(200)], True, 8, 0, overflow='wrap')     # 200 wraps to -56: stored codes [3, -56]
    src_codes = codes(x)
    assert src_codes == [3, -56], src_codes
    exp = [quant(v, True, 16, 2) for v in values(x)]                          # [12, -224]
    mk = lambda v=None: Fxp(v, True, 16, 2)
    got = {}
    got['Fxp(x, True, 16, 2)'] = codes(Fxp(x, True, 16, 2))
    got['Fxp(x, like=d)'] = codes(Fxp(x, like=mk()))
    got['d.set_val(x)'] = codes(mk().set_val(x))
    got['d(x)'] = codes(mk()(x))
    d = mk([0, 0]); d[...] = x; got['d[...] = x'] = codes(d)
    d = mk([0, 0]); d[1] = x[1]; got['d[1] = x[1]'] = [codes(d)[1]] and codes(d)
    y = x.deepcopy(); y.resize(True, 16, 2); got['x.resize(True, 16, 2)'] = codes(y)
    got['x.like(d)'] = codes(x.like(mk()))
    got['d.equal(x)'] = codes(mk().equal(x))
    wrong = {k: v for k, v in got.items() if (v != exp if k != 'd[1] = x[1]' else v != [0, exp[1]])}
    report('F1', True, bool(wrong), 'unsigned value type, negative codes %s -> s16/2: expected %s; wrong routes: %s; source after: %s'
           % (src_codes, exp, wrong, codes(x)))


guarded('F1', True, f1)


# F1b (inside, same root cause, reached by a history of two conversions: equal() then the constructor)
def f1b():
    x = Fxp([np.uint64(1), np.uint64(2)], True, 8, 0)
    x.equal(Fxp([-3, 4], True, 8, 0))                      # first conversion (same format): codes [-3, 4]
    assert codes(x) == [-3, 4]
    exp = [quant(v, True, 16, 2) for v in values(x)]       # [-12, 16]
    got = codes(Fxp(x, True, 16, 2))                       # second conversion
    report('F1b', True, got != exp, 'equal() then Fxp(x, True, 16, 2): expected %s, got %s' % (exp, got))


guarded('F1b', True, f1b)


# F1c (inside, same root cause; a natural history: an unsigned object read from uint64 data is made signed by resize() with
#     wrap, then converted by the constructor)
def f1c():
    x = Fxp(list(np.array([3, 200], dtype=np.uint64)), False, 8, 0, overflow='wrap')
    x.resize(signed=True)                                   # first conversion u8/0 -> s8/0 (wrap): codes [3, -56]
    assert codes(x) == [quant(3, True, 8, 0, 'trunc', 'wrap'), quant(200, True, 8, 0, 'trunc', 'wrap')] == [3, -56]
    exp = [quant(v, True, 16, 2) for v in values(x)]
    got = codes(Fxp(x, True, 16, 2)); ok_route = codes(x.like(Fxp(None, True, 16, 2)))
    report('F1c', True, got != exp, 'u8/0 -resize(signed=True), wrap-> s8/0 -Fxp(x, True, 16, 2)-> expected %s, got %s (like(): %s)' % (exp, got, ok_route))


guarded('F1c', True, f1c)


# F2 (borderline: the vdtype= keyword of set_val): same root cause with a narrow value type
def f2():
    x = Fxp(None, True, 16, 0); x.set_val(300, raw=True, vdtype=np.int8)
    exp = [quant(v, True, 20, 2) for v in values(x)]       # [1200]
    got = codes(Fxp(x, True, 20, 2)); ok_route = codes(x.like(Fxp(None, True, 20, 2)))
    report('F2', False, got != exp, 'set_val(300, raw=True, vdtype=np.int8) then Fxp(x, True, 20, 2): expected %s, got %s (like(): %s)' % (exp, got, ok_route))
    x = Fxp(None, True, 32, 0); x.set_val(2**24 + 1, raw=True, vdtype=np.float32)
    exp = [quant(v, True, 40, 0) for v in values(x)]
    got = codes(Fxp(x, True, 40, 0))
    report('F2b', False, got != exp, 'vdtype=np.float32, code 2**24+1 -> s40/0: expected %s, got %s' % (exp, got))


guarded('F2', False, f2)


# F3 (borderline: scale / bias are not named by the property): equal() and like() copy raw codes and ignore the linear
#     scaling of the source or of the destination; set_val / constructor / indexed assignment / resize use the value.
def f3():
    x = Fxp(3.0, True, 16, 4, scale=2, bias=1)             # stored value 3.0 (code 16)
    true_val = Fraction(x.val.item()) / 2 ** 4 * 2 + 1
    assert true_val == 3
    mk = lambda: Fxp(None, True, 16, 4)
    exp = quant(true_val, True, 16, 4)                      # 48
    got = {'d.equal(x)': codes(mk().equal(x))[0], 'x.like(d)': codes(x.like(mk()))[0],
           'd.set_val(x)': codes(mk().set_val(x))[0], 'Fxp(x, True, 16, 4)': codes(Fxp(x, True, 16, 4))[0]}
    wrong = {k: v for k, v in got.items() if v != exp}
    report('F3', False, bool(wrong), 'scaled source (value 3.0) -> plain s16/4: expected code %d; wrong routes: %s' % (exp, wrong))
    p = Fxp(3.0, True, 16, 4)
    sd = lambda: Fxp(None, True, 16, 4, scale=2, bias=1)
    exp = quant((Fraction(3) - 1) / 2, True, 16, 4)         # code 16 (denotes 3.0 under scale 2, bias 1)
    got = {'sd.equal(p)': codes(sd().equal(p))[0], 'p.like(sd)': codes(p.like(sd()))[0],
           'sd.set_val(p)': codes(sd().set_val(p))[0], 'Fxp(p, like=sd)': codes(Fxp(p, like=sd()))[0]}
    wrong = {k: v for k, v in got.items() if v != exp}
    report('F3b', False, bool(wrong), 'plain source 3.0 -> scaled destination: expected code %d; wrong routes: %s' % (exp, wrong))


guarded('F3', False, f3)


# F4 (borderline: status flag): the inaccuracy flag of the source reaches the destination by some routes only
def f4():
    x = Fxp([1.3, -2.2], True, 8, 2)                        # inexact: x.status['inaccuracy'] is True
    assert x.status['inaccuracy']
    mk = lambda v=None: Fxp(v, True, 8, 4)                  # exact conversion (more fractional bits)
    flags = {}
    flags['Fxp(x, like=d)'] = Fxp(x, like=mk()).status['inaccuracy']
    flags['d.set_val(x)'] = mk().set_val(x).status['inaccuracy']
    d = mk([0, 0]); d[...] = x; flags['d[...] = x'] = d.status['inaccuracy']
    y = x.deepcopy(); y.resize(True, 8, 4); flags['resize'] = y.status['inaccuracy']
    flags['x.like(d)'] = x.like(mk()).status['inaccuracy']
    flags['d.equal(x)'] = mk().equal(x).status['inaccuracy']
    d = mk([0, 0]); d[0] = x[0]; d[1] = x[1]; flags['d[i] = x[i]'] = d.status['inaccuracy']
    report('F4', False, len(set(flags.values())) > 1, 'inaccuracy flag of the destination by route: %s' % flags)


guarded('F4', False, f4)


# F5 (borderline: formats with n_frac > n_word under dtype_notation='Q'): the dtype string the library prints cannot be fed
#     back to resize(dtype=...)
def f5():
    d = Fxp(None, True, 4, 6, dtype_notation='Q')           # prints 'Q-2.6'
    x = Fxp(0.03125, True, 8, 7)
    try:
        y = x.deepcopy(); y.resize(dtype=d.dtype)
        ok = (y.signed, y.n_word, y.n_frac) == (True, 4, 6) and codes(y) == [quant(Fraction(1, 32), True, 4, 6)]
        report('F5', False, not ok, 'resize(dtype=%r) -> %s' % (d.dtype, y.dtype))
    except ValueError as e:
        report('F5', False, True, 'resize(dtype=%r) raises %r (resize(True, 4, 6) gives code %s)' % (d.dtype, e, quant(Fraction(1, 32), True, 4, 6)))


guarded('F5', False, f5)


# F6 (borderline: element object versus 0-d object): an element taken by indexing cannot be the target of an indexed assignment
def f6():
    d = Fxp([1.0, 2.0, 3.0], True, 8, 2); e = d[1]; x = Fxp(0.75, True, 8, 4)
    s = Fxp(2.0, True, 8, 2); s[()] = x                     # a scalar object built by the constructor accepts it
    assert codes(s) == [3]
    try:
        e[()] = x
        report('F6', False, codes(e) != [3], 'd[1][()] = x -> %s' % codes(e))
    except TypeError as ex:
        report('F6', False, True, 'd[1][()] = x raises %r' % (ex,))


guarded('F6', False, f6)

sys.exit(1 if any(inside and violated for _, inside, violated in results) else 0)
