#!/usr/bin/env python
"""C14 (shifts) reproducers. FXP_REPO selects the fxpmath checkout (default /tmp/wth-C14)."""
import os, sys
sys.path.insert(0, os.environ.get('FXP_REPO', '/tmp/wth-C14'))
import numpy as np
from fractions import Fraction as F
from fxpmath import Fxp

violations = 0

def violation(title, got, expected):
    global violations
    violations += 1
    print('VIOLATION {}: got {} expected {}'.format(title, got, expected))

def borderline(title, got, expected):
    print('BORDERLINE {}: got {} expected {}'.format(title, got, expected))

def ok(title):
    print('ok        {}'.format(title))

# ---------------------------------------------------------------------------
# F1: trunc/keep  x >> n  returns an object whose .real still holds the value of x
# ---------------------------------------------------------------------------
t = 'F1 trunc/keep x>>n leaves stale .real (value of x, not of x>>n)'
hit = False
for mode in ('trunc', 'keep'):
    x = Fxp(None, signed=True, n_word=6, n_frac=3, shifting=mode)
    x.set_val(-20, raw=True)                      # x = -2.5
    y = x >> 2                                    # code floor(-20/4) = -5  ->  -0.625
    want = F(-20 >> 2, 8)
    if F(float(y())) == want and F(float(np.asarray(y.real))) != want:
        hit = True
        violation(t + ' [' + mode + ']', 'y()=%r but y.real=%r' % (float(y()), float(np.asarray(y.real))), 'y.real=%r' % float(want))
    xa = Fxp(None, signed=False, n_word=6, n_frac=0, shifting=mode)
    xa.set_val([63, 8], raw=True)
    ya = xa >> 3
    if [int(v) for v in ya.val] == [7, 1] and [float(v) for v in np.asarray(ya.real)] != [7.0, 1.0]:
        hit = True
        violation(t + ' [' + mode + ', unsigned array]', 'ya.real=%r' % np.asarray(ya.real).tolist(), '[7.0, 1.0]')
if not hit: ok(t)

t = 'F1b trunc/keep scalar x>>n stores .val as NumPy scalar (item assignment on result fails)'
x = Fxp(None, signed=True, n_word=6, n_frac=0, shifting='trunc'); x.set_val(-20, raw=True)
y = x >> 0
try:
    y[()] = 3
    got = int(y.val)
    if got != 3: violation(t, got, 3)
    else: ok(t)
except TypeError as e:
    violation(t, 'type(y.val)=%s, y[()]=3 raises %r' % (type(y.val).__name__, e), 'a 0-d ndarray code like every other Fxp scalar (x<<0 and expand mode give one); assignment stores 3')

# ---------------------------------------------------------------------------
# F2: expand mode, x << 0 is not the identity on the format for the most negative code
# ---------------------------------------------------------------------------
t = 'F2 expand x<<0 changes the format when x holds the most negative code'
hit = False
for w, f in ((1, 0), (6, 0), (6, 3), (32, 16)):
    x = Fxp(None, signed=True, n_word=w, n_frac=f)       # shifting='expand' is the default
    x.set_val(-(1 << (w - 1)), raw=True)
    y = x << 0
    if y.dtype != x.dtype:
        hit = True
        violation(t + ' [n_word=%d]' % w, y.dtype, x.dtype)
x = Fxp(None, signed=True, n_word=6, n_frac=0); x.set_val([-32, 5, 0], raw=True)
y = x << 0
if y.dtype != x.dtype:
    hit = True
    violation(t + ' [array]', y.dtype, x.dtype)
if not hit: ok(t)

# ---------------------------------------------------------------------------
# B1: expand mode + NumPy-integer shift count: data dependent TypeError
# ---------------------------------------------------------------------------
t = 'B1 expand mode with NumPy-integer shift count raises as soon as the format has to grow'
x = Fxp(None, signed=True, n_word=6, n_frac=0); x.set_val([4, -8], raw=True)
for op, n in (('>>', np.int64(2)), ('>>', np.int64(3)), ('<<', np.int64(1)), ('<<', np.int64(3)), ('>>', np.uint8(3)), ('<<', np.int32(3))):
    try:
        y = (x >> n) if op == '>>' else (x << n)
        want = [F(4), F(-8)]
        want = [v / 2**int(n) for v in want] if op == '>>' else [v * 2**int(n) for v in want]
        got = [F(int(c), 2**y.n_frac) for c in y.val]
        if got != want: borderline(t + ' [x%s%s(%d)]' % (op, type(n).__name__, n), got, want)
    except TypeError as e:
        borderline(t + ' [x%s%s(%d)]' % (op, type(n).__name__, n), repr(e), 'same result as with the Python int %d' % int(n))

# ---------------------------------------------------------------------------
# B2: x << n never inherits the configuration of x (x >> n in trunc/keep mode does)
# ---------------------------------------------------------------------------
t = 'B2 trunc x<<n ignores overflow="wrap" of x and returns an object in expand mode'
x = Fxp(None, signed=True, n_word=6, n_frac=0, shifting='trunc', overflow='wrap'); x.set_val(20, raw=True)
y = x << 1                                            # 40 -> wrap: -24, saturate: 31
if int(y.val) != -24:
    borderline(t, 'code %d (saturated), y.config.shifting=%r, y.config.overflow=%r' % (int(y.val), y.config.shifting, y.config.overflow), 'code -24 (wrapped), config of x')
z = (x << 1) << 1
if z.dtype != x.dtype:
    borderline('B2 chained trunc shifts (x<<1)<<1 grow the word', z.dtype, x.dtype)

# ---------------------------------------------------------------------------
# O1 (outside the quantifier, n_word+n >= 64): int64 wrap before saturation / in expand mode
# ---------------------------------------------------------------------------
x = Fxp(1, signed=True, n_word=32, n_frac=0, shifting='trunc')
y = x << 63
if int(y.val) != 2**31 - 1:
    print('OUTSIDE   trunc 1<<63 with n_word=32: got %d expected %d (saturated)' % (int(y.val), 2**31 - 1))
x = Fxp(1, signed=True, n_word=32, n_frac=0)
y = x << 64
if int(y.val) != 2**64:
    print('OUTSIDE   expand 1<<64 with n_word=32: got %s code %d expected code %d' % (y.dtype, int(y.val), 2**64))

sys.exit(1 if violations else 0)
