#!/usr/bin/env python
# Reproducers for property C05 (rounding contracts). Exact oracle: Python ints / fractions.Fraction only.
import os, sys, math, warnings
sys.path.insert(0, os.environ.get('FXP_REPO', '/repo'))
warnings.simplefilter('ignore')
import numpy as np
from fractions import Fraction as F
from decimal import Decimal
from fxpmath import Fxp

def oracle_code(v, n_frac, rounding):
    s = F(v) * F(2) ** n_frac
    if rounding == 'floor': return math.floor(s)
    if rounding == 'ceil': return math.ceil(s)
    if rounding in ('trunc', 'fix'): return math.trunc(s)
    if rounding == 'around': return round(s)        # ties to even
    raise ValueError(rounding)

violations = 0
def check(title, make, vs, signed, n_word, n_frac, rounding):
    """make() builds the Fxp; vs = exact rational value(s) of the input (list)."""
    global violations
    want = [oracle_code(v, n_frac, rounding) for v in vs]
    want_inacc = any(F(c) / F(2) ** n_frac != F(v) for c, v in zip(want, vs))
    try:
        x = make()
        got = [int(c) for c in np.asarray(x.val).flatten()]
        got_inacc = bool(x.status['inaccuracy'])
        bad = got != want or got_inacc != want_inacc
        got_s = 'codes %s inaccuracy=%s' % (got, got_inacc)
    except Exception as e:
        bad = True
        got_s = 'exception %r' % (e,)
    if bad:
        violations += 1
        print('VIOLATION %s: got %s expected codes %s inaccuracy=%s' % (title, got_s, want, want_inacc))
    else:
        print('ok        %s' % title)

# ---- 1. Decimal scalar: always truncated towards zero, never flagged
for s, r in [('-0.3', 'floor'), ('0.3', 'ceil'), ('0.45', 'around'), ('0.375', 'around'), ('5.5', 'ceil')]:
    nf = 0 if s == '5.5' else 2
    check('Decimal(%s) into s8/%d rounding=%s ignores the rounding mode and the inaccuracy flag' % (s, nf, r),
          lambda s=s, r=r, nf=nf: Fxp(Decimal(s), True, 8, nf, rounding=r), [F(Decimal(s))], True, 8, nf, r)
check('Decimal written by indexed assignment (floor)',
      lambda: (lambda z: (z.__setitem__(0, Decimal('-0.3')), z)[1])(Fxp([0., 0.], True, 8, 2, rounding='floor')),
      [F(Decimal('-0.3')), F(0)], True, 8, 2, 'floor')

# ---- 2. object ndarray whose first element is an int: all elements are cast to int before scaling
check('object array [1, 0.75] into s8/2 (0.75 is representable) is stored as [1, 0]',
      lambda: Fxp(np.array([1, 0.75], dtype=object), True, 8, 2), [F(1), F(3, 4)], True, 8, 2, 'trunc')
check('object array [5, 0.7] into s8/0 rounding=ceil',
      lambda: Fxp(np.array([5, 0.7], dtype=object), True, 8, 0, rounding='ceil'), [F(5), F(0.7)], True, 8, 0, 'ceil')
check('object array [0, -0.75] into s8/2 rounding=floor',
      lambda: Fxp(np.array([0, -0.75], dtype=object), True, 8, 2, rounding='floor'), [F(0), F(-3, 4)], True, 8, 2, 'floor')

# ---- 3. np.longdouble scalar is demoted to float64 before rounding (an array of the same dtype is not)
if np.finfo(np.longdouble).nmant >= 63:
    eps = F(1, 2 ** 60)
    ld = lambda a, sign: np.longdouble(a) + sign * np.longdouble(2) ** -60
    check('np.longdouble(1 + 2**-60) scalar into s8/0 rounding=ceil',
          lambda: Fxp(ld(1, 1), True, 8, 0, rounding='ceil'), [1 + eps], True, 8, 0, 'ceil')
    check('np.longdouble(1 - 2**-60) scalar into s8/0 rounding=floor',
          lambda: Fxp(ld(1, -1), True, 8, 0, rounding='floor'), [1 - eps], True, 8, 0, 'floor')
    check('np.longdouble(0.5 + 2**-60) scalar into s8/0 rounding=around',
          lambda: Fxp(ld(0.5, 1), True, 8, 0, rounding='around'), [F(1, 2) + eps], True, 8, 0, 'around')
    check('(control) same value in a 1-element longdouble array, ceil',
          lambda: Fxp(np.array([ld(1, 1)]), True, 8, 0, rounding='ceil'), [1 + eps], True, 8, 0, 'ceil')

# ---- borderline (kept separate in findings.md)
print('--- borderline ---')
check('[borderline] Decimal with negative n_frac raises TypeError',
      lambda: Fxp(Decimal('6'), True, 8, -1, rounding='ceil'), [F(6)], True, 8, -1, 'ceil')
check('[borderline] list of a 22-digit Decimal, ceil: element demoted to float64 before rounding',
      lambda: Fxp([Decimal('0.2500000000000000000001')], True, 8, 2, rounding='ceil'),
      [F(Decimal('0.2500000000000000000001'))], True, 8, 2, 'ceil')
xs = Fxp(3.0, True, 16, 4, scale=2, bias=1)      # value 3.0, raw 16
check('[borderline] scaled Fxp (value 3.0, scale=2, bias=1) stored into a plain s16/4: raw copied, value becomes 1.0',
      lambda: Fxp(xs, True, 16, 4), [F(3)], True, 16, 4, 'trunc')

sys.exit(1 if violations else 0)
