import os, sys, math
sys.path.insert(0, os.environ.get('FXP_REPO', '/repo'))
from fractions import Fraction as F
from decimal import Decimal
import numpy as np
import fxpmath as fx
from fxpmath import Fxp

def oracle(v, s, b, signed, nw, nf, rounding='trunc', overflow='saturate'):
    """exact C01 quantisation of (v-b)/s; returns (code, read value, overflow, underflow, inaccuracy)"""
    t = (F(v) - F(b)) / F(s)
    x = t * F(2) ** nf
    r = {'around': round, 'floor': math.floor, 'ceil': math.ceil, 'fix': math.trunc, 'trunc': math.trunc}[rounding](x)
    mx = (1 << (nw - 1)) - 1 if signed else (1 << nw) - 1
    mn = -mx - 1 if signed else 0
    of, uf = r > mx, r < mn
    if overflow == 'saturate':
        c = min(max(r, mn), mx)
    else:
        c = r % (1 << nw)
        if signed and c >= 1 << (nw - 1): c -= 1 << nw
    return c, F(s) * c / F(2) ** nf + F(b), of, uf, F(c) / F(2) ** nf != t

n_viol = 0
def check(title, got, exp):
    global n_viol
    if got != exp:
        n_viol += 1
        print('VIOLATION {}: got {} expected {}'.format(title, got, exp))
    else:
        print('ok        {}: {}'.format(title, got))

def flags(x): return (x.status['overflow'], x.status['underflow'], x.status['inaccuracy'])
def fr(a): return [F(float(v)) for v in np.asarray(a).ravel()]

S, B = 2.0, 1.0
fmt = dict(signed=True, n_word=8, n_frac=2)

# 1. Decimal value is stored without the affine map
c, r, of, uf, ia = oracle(3, S, B, True, 8, 2)
x = Fxp(Decimal('3.0'), scale=S, bias=B, **fmt)
check('F1a Decimal value stored without (v-b)/s [code, read]', (int(x.val), F(float(x()))), (c, r))
c, r, of, uf, ia = oracle(100, 4, 0, True, 8, 2)
x = Fxp(Decimal('100.0'), scale=4.0, bias=0.0, **fmt)
check('F1b Decimal value: flags / code of an in-range value', (int(x.val), flags(x)), (c, (of, uf, ia)))
x = Fxp([0.0, 0.0], scale=S, bias=B, **fmt); x[1] = Decimal('3.0')
check('F1c indexed assignment of a Decimal', int(x.val[1]), oracle(3, S, B, True, 8, 2)[0])

# 2. Fxp value: the affine map is skipped in both directions
c, r, *_ = oracle(3, S, B, True, 8, 2)
x = Fxp(Fxp(3.0), scale=S, bias=B, **fmt)
check('F2a Fxp value stored in a scaled object [code, read]', (int(x.val), F(float(x()))), (c, r))
d = Fxp(None, scale=S, bias=B, **fmt); d.equal(Fxp(3.0, True, 8, 2))
check('F2b scaled.equal(Fxp(3.0)) read back', F(float(d())), r)
xs = Fxp(3.0, scale=S, bias=B, **fmt)                     # holds 3.0 (code 4)
check('F2c Fxp(scaled source) in an unscaled s8/2 object', F(float(Fxp(xs, True, 8, 2)())), F(3))
u = Fxp([0.0, 0.0], True, 8, 2); u[0] = xs
check('F2d u[0] = scaled source', F(float(u()[0])), F(3))

# 3. out= / config.op_out that is a scaled object receives a raw code
a, b_ = Fxp(3.0, True, 16, 4), Fxp(1.0, True, 16, 4)
out = Fxp(None, True, 16, 4, scale=S, bias=B)
fx.add(a, b_, out=out)
c, r, *_ = oracle(4, S, B, True, 16, 4)
check('F3 add(Fxp(3.0), Fxp(1.0), out=scaled) [code, read]', (int(out.val), F(float(out()))), (c, r))

# 4. scale= / bias= are dropped silently together with like= (or a template)
y = Fxp(None, True, 8, 2)
x = Fxp(3.0, like=y, scale=S, bias=B)
c, r, *_ = oracle(3, S, B, True, 8, 2)
check('F4 Fxp(3.0, like=unscaled, scale=2, bias=1) [scale, bias, code, upper]', (x.scale, x.bias, int(x.val), F(float(x.upper))), (S, B, c, F(S) * F(127, 4) + F(B)))

# 5. flags raised although no out-of-range / inexact value was stored
x = Fxp([5.0, 7.0], signed=False, n_word=8, n_frac=0, scale=1.0, bias=4.0)
check('F5a flags of x[0] (5.0 is exact and in range)', flags(x[0]), (False, False, False))
m = x.mean()
exp = oracle(6, 1, 4, False, 8, 0)
check('F5b flags of x.mean() (6.0 is exact and in range)', (F(float(m())), flags(m)), (exp[1], (exp[2], exp[3], exp[4])))

# 6. (borderline carriers) bool value; NumPy float32 bias with an integer value
c, r, of, uf, ia = oracle(0, S, B, True, 8, 2)
x = Fxp(False, scale=S, bias=B, **fmt)
check('B1 bool value False [code, read]', (int(x.val), F(float(x()))), (c, r))
c, r, of, uf, ia = oracle(3, 1, F(1, 2), True, 8, 2)
x = Fxp(3, bias=np.float32(0.5), **fmt)
check('B2 int value with bias=np.float32(0.5) [code, read, flags]', (int(x.val), F(float(x())), flags(x)), (c, r, (of, uf, ia)))

# 7. (related, outside the literal statement) operators read a scaled operand as its raw code
ys = Fxp(3.0, True, 16, 4, scale=S, bias=B); b1 = Fxp(1.0, True, 16, 4)
check('R1 Fxp(1.0) + scaled(3.0) vs scaled(3.0) + Fxp(1.0)', F(float((b1 + ys)())), F(float((ys + b1)())))
check('R2 -scaled(3.0)', F(float((-ys)())), F(-3))
xm = Fxp([100.0, 120.0], True, 8, 2, scale=4.0)
check('R3 scaled([100,120]).max()', F(float(xm.max()())), F(120))

sys.exit(1 if n_viol else 0)
