#!/usr/bin/env python
"""
Re-checks the C09 (division family) findings against exact oracles (Python ints / fractions.Fraction only).
One line per finding, starting with "VIOLATION" or "holds".
Exit status 1 if a finding classed as inside the quantifier is violated, else 0.
"""
import os, sys, math, warnings
sys.path.insert(0, os.environ.get('FXP_REPO', '/repo'))
warnings.simplefilter('ignore')
import numpy as np
from fractions import Fraction as Fr
from fxpmath import Fxp

def code(z):
    return int(np.asarray(z.val).flatten().tolist()[0])

def value(z):
    return Fr(code(z)) / Fr(2) ** z.n_frac if z.n_frac >= 0 else Fr(code(z)) * Fr(2) ** (-z.n_frac)

def neighbours(exact, n_frac):
    t = exact * Fr(2) ** n_frac
    return {Fr(math.floor(t)) / Fr(2) ** n_frac, Fr(math.ceil(t)) / Fr(2) ** n_frac}

inside_violated = False

def report(violated, inside, tag, text):
    global inside_violated
    if violated and inside:
        inside_violated = True
    print('%s  %s [%s]  %s' % ('VIOLATION' if violated else 'holds    ', tag, 'inside' if inside else 'BORDERLINE', text))

# ---------------------------------------------------------------------------------------------------------------
# F1 (inside by the letter of the quantifier: "random pairs with result word <=53 bits"; the property names the
#     repr method: "with the raw and repr methods agreeing on // and %").
#     One operand has a 54-bit word, the RESULT word is 2 / 4 bits. The repr method works on x.get_val(), a float64
#     (raw / 2**n_frac), which cannot hold the 54-bit value, so // and % are wrong while the raw method is right.
# ---------------------------------------------------------------------------------------------------------------
def f1_mod():
    out = {}
    for method in ('raw', 'repr'):
        x = Fxp(2**53 + 1, signed=False, n_word=54, n_frac=1, raw=True, op_method=method)   # 2**52 + 0.5
        y = Fxp(1, signed=False, n_word=1, n_frac=0, raw=True, op_method=method)            # 1
        out[method] = x % y
    xv, yv = Fr(2**53 + 1, 2), Fr(1)
    exact = xv - yv * math.floor(xv / yv)                                                   # 1/2
    return out, exact

res, exact = f1_mod()
for method in ('raw', 'repr'):
    z = res[method]
    report(value(z) != exact, True, 'F1a %-4s' % method,
           'u54/1 (2**52+0.5) %% u1/0 (1): got %s in %s (word %d <= 53), exact %s' % (value(z), z.dtype, z.n_word, exact))

def f1_floordiv():
    out = {}
    for method in ('raw', 'repr'):
        x = Fxp(2**54 - 1, signed=False, n_word=54, n_frac=50, raw=True, op_method=method)  # 16 - 2**-50
        y = Fxp(2, signed=False, n_word=2, n_frac=0, raw=True, op_method=method)            # 2
        out[method] = x // y
    exact = Fr(math.floor(Fr(2**54 - 1, 2**50) / Fr(2)))                                    # 7
    return out, exact

res, exact = f1_floordiv()
for method in ('raw', 'repr'):
    z = res[method]
    report(value(z) != exact, True, 'F1b %-4s' % method,
           'u54/50 (16-2**-50) // u2/0 (2): got %s in %s (word %d <= 53), exact %s' % (value(z), z.dtype, z.n_word, exact))

# same mechanism: the optimally sized result of // reports an overflow (16 does not fit u4/0) although floor(x/y) = 15 does
x = Fxp(2**54 - 1, signed=False, n_word=54, n_frac=50, raw=True, op_method='repr')
y = Fxp(1, signed=False, n_word=1, n_frac=0, raw=True, op_method='repr')
z = x // y
report(bool(z.status['overflow']), True, 'F1c repr',
       'u54/50 (16-2**-50) // u1/0 (1): optimal result %s, value %s (exact 15), status overflow=%s' % (z.dtype, value(z), z.status['overflow']))

# ---------------------------------------------------------------------------------------------------------------
# F2 (BORDERLINE: configuration fields array_op_out / array_op_out_like are not named by the property).
#     np.divide(x, y) with config.array_op_out set: the quotient is first floored in the optimal format and only then
#     copied into the container, so it is not a neighbour of the exact quotient in the result (container) format.
#     The same container given as out= or as config.op_out gets a correct neighbour.
# ---------------------------------------------------------------------------------------------------------------
def container():
    return Fxp(None, signed=True, n_word=24, n_frac=12)

exact = Fr(5, 4) / Fr(15, 2)                                                                # 1/6
def operands():
    return Fxp(1.25, signed=False, n_word=3, n_frac=2), Fxp(7.5, signed=False, n_word=4, n_frac=1)

x, y = operands(); z = np.divide(x, y, out=container())
report(value(z) not in neighbours(exact, z.n_frac), False, 'F2 out=        ',
       'u3/2 (1.25) / u4/1 (7.5) into s24/12: code %d, exact %.3f LSB' % (code(z), float(exact * 4096)))
x, y = operands(); x.config.op_out = container(); z = x / y
report(value(z) not in neighbours(exact, z.n_frac), False, 'F2 op_out      ',
       'same through config.op_out: code %d' % code(z))
x, y = operands(); x.config.array_op_out = container(); z = np.divide(x, y)
report(value(z) not in neighbours(exact, z.n_frac), False, 'F2 array_op_out',
       'same through config.array_op_out + np.divide: code %d in %s (%.1f LSB away)' % (code(z), z.dtype, abs(float(exact * 4096) - code(z))))
x, y = operands(); x.config.array_op_out_like = container(); z = np.divide(x, y)
report(value(z) not in neighbours(exact, z.n_frac), False, 'F2 .._out_like ',
       'same through config.array_op_out_like + np.divide: code %d in %s' % (code(z), z.dtype))

# ---------------------------------------------------------------------------------------------------------------
# B3 (BORDERLINE: op_sizing='fit' is not optimal sizing, and the result word it picks is 57 > 53 bits).
#     repr method + 'fit': the format is estimated from the float quotient with up to 53 fractional bits; the stored
#     code is more than one LSB of that format away from the exact quotient.
# ---------------------------------------------------------------------------------------------------------------
x = Fxp([-1, -2, -2, 0], signed=True, n_word=2, n_frac=0, raw=True, op_method='repr', op_sizing='fit')
y = Fxp([29, 3, 20, -32], signed=True, n_word=6, n_frac=3, raw=True, op_method='repr')
z = x / y
zc = [int(c) for c in np.asarray(z.val).flatten().tolist()]
worst = Fr(0); worst_i = None
for i, (a, b) in enumerate(zip([-1, -2, -2, 0], [29, 3, 20, -32])):
    e = Fr(a) / Fr(b, 8)
    d = abs(Fr(zc[i]) - e * Fr(2) ** z.n_frac)          # distance in LSB of the result format
    if d > worst: worst, worst_i = d, i
report(worst >= 1, False, 'B3 fit/repr    ',
       's2/0 [-1,-2,-2,0] / s6/3 [29,3,20,-32] with op_sizing=fit: %s (word %d > 53), element %s off by %.2f LSB' % (z.dtype, z.n_word, worst_i, float(worst)))

sys.exit(1 if inside_violated else 0)
