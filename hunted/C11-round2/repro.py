#!/usr/bin/env python
"""C11 round 2 reproducers. fxpmath is imported from $FXP_REPO (default /repo)."""
import os, sys
sys.path.insert(0, os.environ.get('FXP_REPO', '/repo'))
import numpy as np
from fxpmath import Fxp

violations = 0

def code(y):
    v = np.asarray(y.val)
    if v.ndim == 0:
        return int(v)
    return [int(t) for t in v.flatten()]

def report(kind, title, got, expected):
    global violations
    print('%s %s: got %s expected %s' % (kind, title, got, expected))
    if kind == 'VIOLATION':
        violations += 1

def attempt(f):
    try:
        return f()
    except Exception as e:
        return 'EXC ' + repr(e)[:90]

# ---------------------------------------------------------------- F1: scaled object, value mode
x = Fxp(None, True, 8, 4, scale=2, bias=1)
x.set_val(-93, raw=True)                      # code 0xA3
for how, f in (('constructor like=x', lambda s: Fxp(s, like=x)),
               ('set_val', lambda s: Fxp(None, like=x).set_val(s)),
               ('call', lambda s: Fxp(None, like=x)(s)),
               ('from_bin', lambda s: Fxp(None, like=x).from_bin(s))):
    for s in (x.bin(prefix='0b'), x.bin(frac_dot=True, prefix='0b'), x.hex()):
        if how == 'from_bin' and 'x' in s:
            continue
        got = attempt(lambda: code(f(s)))
        if got != -93:
            report('VIOLATION', 'F1 scaled object (scale=2, bias=1) s8/4: %s(%r)' % (how, s), got, -93)
xa = Fxp(None, True, 8, 4, scale=1, bias=0.25)
xa.set_val([[-93, 5], [127, -128]], raw=True)
got = attempt(lambda: code(Fxp(xa.hex(), like=xa)))
if got != [-93, 5, 127, -128]:
    report('VIOLATION', 'F1 scaled 2-D array (bias=0.25) s8/4: Fxp(x.hex(), like=x)', got, [-93, 5, 127, -128])

# ---------------------------------------------------------------- F2: prefixes offered by Config that cannot be parsed back
x = Fxp(-93, True, 8, 4, raw=True)
for hp in ('x', 'h', 'X', '0X', 'H', '0H'):
    for raw in (False, True):
        s = x.hex(prefix=hp)
        got = attempt(lambda: code(Fxp(s, True, 8, 4, raw=raw)))
        if got != -93:
            report('VIOLATION', 'F2 hex prefix %r: Fxp(%r, True, 8, 4, raw=%s)' % (hp, s, raw), got, -93)
y = Fxp(-93, True, 8, 4, raw=True, hex_prefix='h')      # prefix selected through the configuration
s = y.hex()
got = attempt(lambda: code(Fxp(None, like=y).set_val(s)))
if got != -93:
    report('VIOLATION', "F2 config.hex_prefix='h': set_val(x.hex()=%r)" % s, got, -93)
for bp in ('B', '0B'):
    for s in (x.bin(prefix=bp), x.bin(frac_dot=True, prefix=bp)):
        got = attempt(lambda: code(Fxp(s, True, 8, 4)))
        if got != -93:
            report('VIOLATION', 'F2 bin prefix %r: Fxp(%r, True, 8, 4)' % (bp, s), got, -93)

# ---------------------------------------------------------------- F3: hex_prefix=None makes hex() raise
for val in (-93, [[-93, 5]]):
    z = Fxp(val, True, 8, 4, raw=True, hex_prefix=None)
    got = attempt(lambda: z.hex())
    if isinstance(got, str) and got.startswith('EXC'):
        report('VIOLATION', 'F3 config.hex_prefix=None: Fxp(%r, True, 8, 4, raw=True, hex_prefix=None).hex()' % (val,), got,
               "'A3'" if val == -93 else "[['A3', '05']]")

# ---------------------------------------------------------------- F4: dotted binary string with raw=True
x = Fxp(-93, True, 8, 4, raw=True)
s = x.bin(frac_dot=True, prefix='0b')
for how, f in (('constructor', lambda: Fxp(s, True, 8, 4, raw=True)),
               ('set_val', lambda: Fxp(None, True, 8, 4).set_val(s, raw=True)),
               ('from_bin', lambda: Fxp(None, True, 8, 4).from_bin(x.bin(frac_dot=True), raw=True))):
    got = attempt(lambda: code(f()))
    if got != -93:
        report('VIOLATION', 'F4 dotted string %r, raw=True, %s' % (s, how), got, -93)
w = Fxp(2**62 + 1, True, 64, 0, raw=True)
s = w.bin(frac_dot=True, prefix='0b')
got = attempt(lambda: code(Fxp(s, True, 64, 0, raw=True)))
if got != 2**62 + 1:
    report('VIOLATION', 'F4 dotted string of s64/0 (n_frac=0, only a trailing point), raw=True', got, 2**62 + 1)

# ---------------------------------------------------------------- borderline items (do not count for the exit code)
x = Fxp([-93, 5], True, 8, 4, raw=True)
got = attempt(lambda: code(Fxp(None, True, 8, 4).from_bin(tuple(x.bin()))))
if got != [-93, 5]:
    report('BORDERLINE', 'B1 from_bin(tuple of strings) (tuples are accepted by the constructor)', got, [-93, 5])
c = Fxp(-5.8125 + 1.0625j, True, 8, 4)
r = c.bin(prefix='0b')
if not isinstance(r, str):
    report('BORDERLINE', 'B2 complex scalar bin() return type', type(r).__name__ + ' ' + repr(r), "str '0b10100011+0b00010001j'")
got = attempt(lambda: Fxp(r, True, 8, 4).val.tolist())
if got != (-93 + 17j):
    report('BORDERLINE', 'B2 complex scalar: Fxp(x.bin(prefix="0b"), True, 8, 4)', got, (-93 + 17j))
got = attempt(lambda: Fxp(str(r), True, 8, 4, raw=True).val.tolist())
if got != (-93 + 17j):
    report('BORDERLINE', 'B2 complex scalar: Fxp(str(x.bin(prefix="0b")), True, 8, 4, raw=True)', got, (-93 + 17j))
c0 = Fxp(5 + 6j, True, 8, 0)
got = attempt(lambda: Fxp(str(c0.bin(prefix='0b')), True, 8, 0).val.tolist())
if got != (5 + 6j):
    report('BORDERLINE', 'B2 complex scalar s8/0: Fxp(str(x.bin(prefix="0b")), True, 8, 0)', got, (5 + 6j))
got = attempt(lambda: Fxp(str(c.hex()), True, 8, 4).val.tolist())
if got != (-93 + 17j):
    report('BORDERLINE', 'B2 complex scalar: Fxp(str(x.hex()), True, 8, 4)', got, (-93 + 17j))
n = Fxp(-93, True, 8, -3, raw=True)
got = attempt(lambda: code(Fxp(n.bin(prefix='0b'), True, 8, -3)))
if got != -93:
    report('BORDERLINE', 'B3 negative n_frac (s8/-3), value mode: Fxp(x.bin(prefix="0b"), True, 8, -3)', got, -93)
got = attempt(lambda: n.bin(frac_dot=True, prefix='0b'))
if isinstance(got, str) and got.startswith('EXC'):
    report('BORDERLINE', 'B3 negative n_frac (s8/-3): bin(frac_dot=True, prefix="0b")', got, "'0b10100011###.'")
m = Fxp(-93, True, 8, 12, raw=True)
got = attempt(lambda: code(Fxp(m.bin(frac_dot=True, prefix='0b'), True, 8, 12)))
if got != -93:
    report('BORDERLINE', 'B4 n_frac > n_word (s8/12): Fxp(x.bin(frac_dot=True, prefix="0b"), True, 8, 12)', got, -93)

sys.exit(1 if violations else 0)
