#!/usr/bin/env python
"""
C08 hunt (round 3) - re-check of every finding with an exact oracle (Python ints / Fractions only).

No finding is CLEARLY inside the quantifier of C08, so the exit status is 0 unless the compact in-quantifier
sanity sweep at the end (I1) fails.  Every BORDERLINE finding prints a line starting with "VIOLATION" while the
library still shows the behaviour, "holds" once it is repaired.
"""
import os, sys, math, random, warnings
sys.path.insert(0, os.environ.get('FXP_REPO', '/repo'))
warnings.simplefilter('ignore')
from fractions import Fraction as F
import numpy as np
import fxpmath
from fxpmath import Fxp
import fxpmath.functions as fx

ROUND = ['trunc', 'around', 'floor', 'ceil', 'fix']
OVF = ['saturate', 'wrap']


def rnd(q, mode):
    return {'trunc': math.trunc, 'fix': math.trunc, 'floor': math.floor, 'ceil': math.ceil, 'around': round}[mode](q)


def quant(v, signed, n_word, n_frac, rounding, overflow):
    """exact C01 quantizer: code, overflow flag, underflow flag"""
    r = rnd(F(v) * F(2) ** n_frac, rounding)
    hi = (1 << (n_word - 1)) - 1 if signed else (1 << n_word) - 1
    lo = -hi - 1 if signed else 0
    if overflow == 'saturate':
        c = min(hi, max(lo, r))
    else:
        c = r & ((1 << n_word) - 1)
        if signed and c >= (1 << (n_word - 1)):
            c -= 1 << n_word
    return c, r > hi, r < lo


def codes(x):
    # (exact: Python integers, the real part of complex codes)
    return [int(c.real) if isinstance(c, complex) else int(c) for c in np.asarray(x.val).flatten().tolist()]


def value_list(x):
    return [F(c) / F(2) ** x.n_frac for c in codes(x)]


clearly_inside_violated = False


def report(tag, inside, violated, msg, label=None):
    global clearly_inside_violated
    print('{} {} [{}] {}'.format('VIOLATION' if violated else 'holds', tag, label or ('INSIDE' if inside else 'BORDERLINE'), msg))
    if inside and violated:
        clearly_inside_violated = True


# ----------------------------------------------------------------------------------------------------------------
# B1 (borderline: complex operand) abs() of a complex ARRAY is one LSB low although |z| is representable
# ----------------------------------------------------------------------------------------------------------------
def b1():
    bad = []
    n = 0
    for a in range(1, 2048):
        for b in range(a, 2048):
            r = math.isqrt(a * a + b * b)
            if r * r == a * a + b * b and r < 2048:           # |a + bj| = r exactly, representable in s12/0
                n += 1
                if n % 7:                                       # (a sample keeps the run short)
                    continue
                x = Fxp([complex(a, b), complex(-b, a)], True, 12, 0, raw=True)
                got = codes(abs(x))
                if got != [r, r]:
                    bad.append((a, b, r, got))
    x = Fxp([20 + 99j], True, 12, 0)          # |20+99j| = 101
    y = Fxp([1.25 + 6.1875j], True, 12, 4)    # |.| = 6.3125 = 101/16
    first = (codes(abs(x)), codes(abs(y)), codes(abs(x[0])))
    violated = bool(bad) or first[0] != [101] or first[1] != [101]
    report('B1', False, violated,
           'abs(Fxp([20+99j], s12/0)).val = {} (exact 101), abs(Fxp([1.25+6.1875j], s12/4)).val = {} (exact 101), '
           'the scalar abs(x[0]).val = {}; {} of the sampled exact Pythagorean code pairs are one LSB low'.format(first[0], first[1], first[2], len(bad)))


# ----------------------------------------------------------------------------------------------------------------
# B2 (borderline: NumPy-dispatch form + config.array_op_method='raw') np.negative / np.abs / np.positive return the
#    raw codes as values (off by 2**n_frac), and with out= store the codes as values
# ----------------------------------------------------------------------------------------------------------------
def b2():
    x = Fxp([1.5, -2.25, 3.0], True, 8, 4, array_op_method='raw')
    want = {'negative': [F(-3, 2), F(9, 4), F(-3)], 'abs': [F(3, 2), F(9, 4), F(3)], 'positive': [F(3, 2), F(-9, 4), F(3)]}
    got = {}
    violated = False
    for name, f in (('negative', np.negative), ('abs', np.abs), ('positive', np.positive)):
        z = f(x)
        got[name] = value_list(z)
        violated |= got[name] != want[name]
    o = Fxp(None, True, 8, 4)
    zo = np.negative(x, out=o)
    got_out = value_list(zo)
    violated |= got_out != want['negative']
    report('B2', False, violated,
           "array_op_method='raw': np.negative(x) values {} (exact {}), np.negative(x, out=s8/4) values {}".format(
               [float(v) for v in got['negative']], [float(v) for v in want['negative']], [float(v) for v in got_out]))


# ----------------------------------------------------------------------------------------------------------------
# B3 (borderline: what 'same' means) sizing 'same' with an unsigned first and a signed second operand returns a word
#    one bit longer than the first operand (docs/config.md: "'same': same size that firs operand")
# ----------------------------------------------------------------------------------------------------------------
def b3():
    u = Fxp(1.5, False, 8, 4)
    s = Fxp(-0.5, True, 8, 4)
    z = fx.add(u, s, sizing='same')
    violated = (bool(z.signed), z.n_word, z.n_frac) != (False, 8, 4)
    report('B3', False, violated, "add(u8/4, s8/4, sizing='same') -> {} (first operand is fxp-u8/4)".format(z.dtype))


# ----------------------------------------------------------------------------------------------------------------
# B4 (borderline: which operand is "first" for a reflected subtraction) k - x with op_input_size='best' and the default
#    const_op_sizing='same' is quantized into the best-size format of the CONSTANT under a default configuration
# ----------------------------------------------------------------------------------------------------------------
def b4():
    x = Fxp(1.5, True, 16, 8, op_input_size='best', rounding='around', overflow='wrap')
    z = 5 - x                                   # exact 3.5, representable in x's format s16/8
    c, _, _ = quant(F(7, 2), True, 16, 8, 'around', 'wrap')
    violated = (bool(z.signed), z.n_word, z.n_frac) != (True, 16, 8) or codes(z) != [c] or \
        (z.config.rounding, z.config.overflow) != ('around', 'wrap')
    report('B4', False, violated,
           "5 - x (x = 1.5 in s16/8, around/wrap, op_input_size='best', const_op_sizing='same') -> {} value {} config {}/{}; "
           "x - 5 -> {}".format(z.dtype, float(value_list(z)[0]), z.config.rounding, z.config.overflow, (x - 5).dtype))


# ----------------------------------------------------------------------------------------------------------------
# B5 (borderline: NumPy-dispatch form) np.add(x, y) ignores config.op_sizing / op_out of x (x + y honours them)
# ----------------------------------------------------------------------------------------------------------------
def b5():
    x = Fxp([1.5, -2.25], True, 8, 4, op_sizing='same')
    y = Fxp([0.125, 0.375], True, 8, 6)
    o = Fxp(None, True, 6, 2)
    z1 = np.add(x, y)
    x.config.op_out = o
    z2 = np.add(x, y)
    violated = z1.dtype != 'fxp-s8/4' or z2 is not o
    report('B5', False, violated, "op_sizing='same': np.add(x, y) -> {} (x + y -> fxp-s8/4); with op_out=o np.add(x, y) is o: {}".format(z1.dtype, z2 is o))


# ----------------------------------------------------------------------------------------------------------------
# B6 (borderline: bool carrier) x + True raises OverflowError
# ----------------------------------------------------------------------------------------------------------------
def b6():
    x = Fxp(1.5, True, 8, 4)
    try:
        z = x + True
        violated = codes(z) != [40]
        msg = 'x + True -> {}'.format(z)
    except Exception as e:
        violated = True
        msg = 'x + True raises {}: {}'.format(type(e).__name__, e)
    report('B6', False, violated, msg)


# ----------------------------------------------------------------------------------------------------------------
# A1 (OUTSIDE the quantifier: operand words of 62 bits) out_like always takes the float value path
# ----------------------------------------------------------------------------------------------------------------
def a1():
    x = Fxp(2**58 + 1, True, 62, 1, raw=True)
    y = Fxp(2, True, 62, 1, raw=True)
    z = fx.add(x, y, out_like=Fxp(None, True, 64, 1))
    violated = codes(z) != [2**58 + 3]
    report('A1', False, violated, 'add(s62/1 code 2**58+1, s62/1 code 2, out_like=s64/1).val = {} (exact {}); out= gives {}'.format(
        codes(z)[0], 2**58 + 3, codes(fx.add(x, y, out=Fxp(None, True, 64, 1)))[0]), label='OUTSIDE')


# ----------------------------------------------------------------------------------------------------------------
# I1 (INSIDE) compact randomized re-run of the sweeps that held: two operands, every policy / method / mode,
#    out / out_like of arbitrary format, constants on both sides, unary operators
# ----------------------------------------------------------------------------------------------------------------
def exp_fmt(op, pol, a, b):
    s = a[0] or b[0]
    ai, bi = a[1] - a[2] - int(a[0]), b[1] - b[2] - int(b[0])
    if pol == 'optimal':
        if op == 'mul':
            return (s, a[1] + b[1], a[2] + b[2])
        ni, nf = max(ai, bi) + 1, max(a[2], b[2])
    elif pol == 'same':
        ni, nf = ai, a[2]
    elif pol == 'largest':
        ni, nf = max(ai, bi), max(a[2], b[2])
    else:
        ni, nf = min(ai, bi), min(a[2], b[2])
    return (s, int(s) + ni + nf, nf)


def i1():
    rng = random.Random(2026)
    f = {'add': lambda p, q: p + q, 'sub': lambda p, q: p - q, 'mul': lambda p, q: p * q}
    bad = []
    n = 0

    def rfmt():
        s = rng.random() < 0.6
        w = rng.randint(2, 12)
        return (s, w, rng.randint(0, w - int(s)))

    def rcode(s, w):
        lo, hi = (-(1 << (w - 1)), (1 << (w - 1)) - 1) if s else (0, (1 << w) - 1)
        return rng.choice([lo, hi, rng.randint(lo, hi), rng.randint(lo, hi)])

    for it in range(3000):
        fa, fb = rfmt(), rfmt()
        shape = rng.choice([(), (1,), (3,), (2, 3)])
        size = int(np.prod(shape)) if shape else 1
        ca = [rcode(fa[0], fa[1]) for _ in range(size)]
        cb = rcode(fb[0], fb[1])
        R, O = rng.choice(ROUND), rng.choice(OVF)
        x = Fxp(np.array(ca).reshape(shape) if shape else ca[0], *fa, raw=True, rounding=R, overflow=O)
        op = rng.choice(['add', 'sub', 'mul'])
        pol = rng.choice(['optimal', 'same', 'largest', 'smallest'])
        meth = rng.choice(['raw', 'repr'])
        xv = [F(c) / F(2) ** fa[2] for c in ca]
        kind = rng.choice(['sizing', 'out', 'out_like', 'const', 'rconst'])
        gR, gO = R, O
        if kind in ('sizing', 'out', 'out_like'):
            y = Fxp(cb, *fb, raw=True)
            yv = F(cb) / F(2) ** fb[2]
            ex = [f[op](v, yv) for v in xv]
            kw = {}
            if kind == 'sizing':
                ef = exp_fmt(op, pol, fa, fb)
            else:
                tw = rng.choice([1, 3, 8, 14, 33, 53, 64, 70]); tf = rng.randint(-4, tw + 4)
                ef = (True if (fa[0] or fb[0]) else rng.random() < 0.5, tw, tf)
                gR, gO = rng.choice(ROUND), rng.choice(OVF)
                t = Fxp(None, *ef, rounding=gR, overflow=gO)
                kw[kind] = t
            z = getattr(fx, op)(x, y, sizing=pol, method=meth, **kw)
            if kind == 'out' and z is not t:
                bad.append(('not out', it))
        else:
            ois = rng.choice(['same', 'best'])
            x.config.op_input_size = ois; x.config.const_op_sizing = pol; x.config.op_method = meth
            q = F(rng.randint(-300, 300), 2 ** rng.choice([0, 1, 3, 6]))
            k = float(q) if q.denominator != 1 or rng.random() < 0.5 else int(q)
            if ois == 'same':
                kc, _, _ = quant(q, fa[0], fa[1], fa[2], R, O)
                kv, kf = F(kc) / F(2) ** fa[2], fa
            else:
                kx = Fxp(k)
                kv, kf = q, (bool(kx.signed), kx.n_word, kx.n_frac)
                if value_list(kx) != [q]:
                    bad.append(('best inexact', k)); continue
            if kind == 'rconst' and op == 'sub':
                if ois == 'best':
                    continue        # (see B4)
                z = k - x; ex = [kv - v for v in xv]; ef = exp_fmt(op, pol, kf, fa)
            else:
                z = {'add': lambda: (x + k) if kind == 'const' else (k + x), 'sub': lambda: x - k,
                     'mul': lambda: (x * k) if kind == 'const' else (k * x)}[op]()
                ex = [f[op](v, kv) for v in xv]; ef = exp_fmt(op, pol, fa, kf)
        n += 1
        qq = [quant(v, ef[0], ef[1], ef[2], gR, gO) for v in ex]
        if (bool(z.signed), z.n_word, z.n_frac) != ef or codes(z) != [c for c, _, _ in qq] or \
            (bool(z.status['overflow']), bool(z.status['underflow'])) != (any(o for _, o, _ in qq), any(u for _, _, u in qq)) or \
            (z.config.rounding, z.config.overflow) != (gR, gO):
            bad.append((kind, op, pol, meth, fa, ca, fb, cb, ef, codes(z)))
        # unary
        for name, g, h in (('neg', lambda v: -v, lambda c: -c), ('pos', lambda v: +v, lambda c: c), ('abs', abs, abs)):
            zu = g(x)
            lo, hi = (-(1 << (fa[1] - 1)), (1 << (fa[1] - 1)) - 1) if fa[0] else (0, (1 << fa[1]) - 1)
            for c, gc in zip(ca, codes(zu)):
                if lo <= h(c) <= hi and gc != h(c):
                    bad.append((name, fa, c, gc))
    report('I1', True, bool(bad), '{} randomized in-quantifier checks (+ - * with every policy / method / mode, out / out_like, constants, unary), {} failures{}'.format(
        n, len(bad), (': ' + repr(bad[:2])) if bad else ''))


if __name__ == '__main__':
    print('fxpmath from', fxpmath.__file__)
    for fn in (b1, b2, b3, b4, b5, b6, a1, i1):
        try:
            fn()
        except Exception as e:       # an unexpected exception in a re-check is reported, never hidden
            print('VIOLATION {} [ERROR] unexpected {}: {}'.format(fn.__name__.upper(), type(e).__name__, e))
            if fn is i1:
                clearly_inside_violated = True
    sys.exit(1 if clearly_inside_violated else 0)
