#!/usr/bin/env python
"""C06 (size inference) reproducers.  Exit code 1 if any violation reproduces."""
import os, sys, warnings
sys.path.insert(0, os.environ.get('FXP_REPO', '/tmp/wth-C06'))
warnings.simplefilter('ignore')
import numpy as np
from fractions import Fraction as F
from fxpmath import Fxp

violations = 0


def flags(x):
    return sorted(k for k, v in x.status.items() if v and k != 'extended_prec')


def stored(x):
    """exact stored values as Fractions (from the raw integers)"""
    lsb = F(1, 1 << x.n_frac) if x.n_frac >= 0 else F(1 << -x.n_frac)
    return [F(int(r)) * lsb for r in np.asarray(x.val).ravel()]


def describe(x):
    return '%s flags=%s values=%s' % (x.dtype, flags(x), [float(v) for v in stored(x)])


def report(title, got, expected):
    global violations
    violations += 1
    print('VIOLATION %s: got %s expected %s' % (title, got, expected))


def run(title, build, exp_fmt, exp_vals, exp_flags=(), max_err_lsb=None):
    """exp_fmt = (signed, n_word, n_frac); exp_vals exact Fractions of the inputs.
    max_err_lsb=None -> values must be stored exactly; else |err| < 1 LSB is demanded."""
    exp_txt = 'fxp-%s%d/%d flags=%s %s' % ('s' if exp_fmt[0] else 'u', exp_fmt[1], exp_fmt[2], list(exp_flags),
                                           'exact values' if max_err_lsb is None else 'error < 1 LSB')
    try:
        x = build()
    except Exception as ex:
        report(title, 'exception %r' % (ex,), exp_txt)
        return
    ok = (x.signed, x.n_word, x.n_frac) == exp_fmt and flags(x) == sorted(exp_flags)
    st = stored(x)
    if max_err_lsb is None:
        ok = ok and st == list(exp_vals)
    else:
        lsb = F(1, 1 << x.n_frac) if x.n_frac >= 0 else F(1 << -x.n_frac)
        ok = ok and all(abs(a - b) < lsb for a, b in zip(st, exp_vals))
    if not ok:
        report(title, describe(x), exp_txt)
    else:
        print('ok        %s: %s' % (title, describe(x)))


# ---------------------------------------------------------------- F1: capped case, arrays
v = [1000.1, 0.1]
run('F1a capped word (array of non-dyadic doubles) saturates the large element',
    lambda: Fxp(v), (True, 64, 53), [F(a) for a in v], ['inaccuracy'], max_err_lsb=1)
run('F1b same, unsigned',
    lambda: Fxp(v, signed=False), (False, 64, 54), [F(a) for a in v], ['inaccuracy'], max_err_lsb=1)
run('F1c same, only n_word given (n_frac must leave room for the integer part)',
    lambda: Fxp(v, n_word=32), (True, 32, 21), [F(a) for a in v], ['inaccuracy'], max_err_lsb=1)
d = 2**20 + 2**-20           # in-domain dyadic: k = 2**40 + 1, f = 20
run('F1d in-domain dyadic with configured n_word_max=32',
    lambda: Fxp(d, n_word_max=32), (True, 32, 10), [F(d)], ['inaccuracy'], max_err_lsb=1)

# ---------------------------------------------------------------- F2: fixed-width NumPy product in the integer-bit search
run('F2a Python int, unsigned, only n_frac given, raw needs exactly 64 bits',
    lambda: Fxp(2**39, signed=False, n_frac=24), (False, 64, 24), [F(2**39)])
run('F2b uint8 array, only n_frac given',
    lambda: Fxp(np.array([200], dtype=np.uint8), n_frac=4), (True, 13, 4), [F(200)])
run('F2c np.int8 scalar, only n_frac given',
    lambda: Fxp(np.int8(100), n_frac=4), (True, 12, 4), [F(100)])
run('F2d int32 array, only n_frac given',
    lambda: Fxp(np.array([-8, -1812104425], dtype=np.int32), n_frac=1), (True, 33, 1), [F(-8), F(-1812104425)])
run('F2e np.int8 scalar, n_frac=8 (2**8 does not fit int8)',
    lambda: Fxp(np.int8(1), n_frac=8), (True, 10, 8), [F(1)])
run('F2f Python int 1, unsigned, n_frac=63 (2**63 does not fit int64)',
    lambda: Fxp(1, signed=False, n_frac=63), (False, 64, 63), [F(1)])

# ---------------------------------------------------------------- F3: float16 carrier
run('F3a float16 scalar -2**-12, nothing given',
    lambda: Fxp(np.float16(-2**-12)), (True, 13, 12), [F(-1, 2**12)])
run('F3b float16 array [1000, 2**-10], nothing given',
    lambda: Fxp(np.array([1000.0, 2**-10], dtype=np.float16)), (True, 21, 10), [F(1000), F(1, 1024)])
run('F3c float16 array [5/128, -15/16384, -5]: fraction bits under-estimated',
    lambda: Fxp(np.array([5/128, -15/16384, -5], dtype=np.float16)), (True, 18, 14),
    [F(5, 128), F(-15, 16384), F(-5)])
run('F3d float16 scalar 100, only n_frac=10 given',
    lambda: Fxp(np.float16(100.0), n_frac=10), (True, 18, 10), [F(100)])

# ---------------------------------------------------------------- F4: object array whose first element is an int
run('F4 object array [1, 0.5]: 0.5 silently stored as 0, no flag',
    lambda: Fxp(np.array([1, 0.5], dtype=object)), (True, 3, 1), [F(1), F(1, 2)])

# ---------------------------------------------------------------- F5: only a negative n_frac given
run('F5 only n_frac=-1 given for 4.0',
    lambda: Fxp(4.0, n_frac=-1), (True, 3, -1), [F(4)])

# ---------------------------------------------------------------- borderline (reported, not counted)
print('--- borderline (not counted as violations) ---')
x = Fxp(0.5, n_int=3)
print('B1 Fxp(0.5, n_int=3): n_int given alone is ignored ->', x.dtype, 'n_int =', x.n_int)
x = Fxp(0.5, n_word=80)
print('B2 Fxp(0.5, n_word=80): the given word is clipped ->', x.dtype, '(Fxp(0.5, n_word=80, n_frac=1) ->', Fxp(0.5, n_word=80, n_frac=1).dtype + ')')
x = Fxp(3.5, n_word=3, rounding='around')
print('B3 Fxp(3.5, n_word=3, rounding="around"):', describe(x))
x = Fxp(-0.27374865); y = Fxp(0.27374865)
print('B4 negative non-dyadic double (f > 20): Fxp(-0.27374865) ->', x.dtype, flags(x), ' but Fxp(+0.27374865) ->', y.dtype, flags(y))

sys.exit(1 if violations else 0)
