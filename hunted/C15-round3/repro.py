#!/usr/bin/env python
"""
C15 hunt (round 3) - re-check of every finding with an exact oracle (Python ints / Fractions only).

  FXP_REPO=/path/to/fxpmath-tree  python repro.py

One line per finding: "VIOLATION <id> ..." or "holds <id> ...".
Exit status 1 if a finding of tier A (inside the quantifier) is violated, else 0.
Tier B (arguable) and tier C (borderline) findings are printed but do not change the exit status.
"""
import os, sys, warnings
sys.path.insert(0, os.environ.get('FXP_REPO', '/repo'))
warnings.filterwarnings('ignore')
import numpy as np
from fractions import Fraction as F
import fxpmath
from fxpmath import Fxp
from fxpmath.objects import Config

print('fxpmath from', fxpmath.__file__, '| numpy', np.__version__)

inside_violated = False


def exact(z):
    """exact values (Fractions) held by the Fxp z, as a nested list; None if z is not an Fxp"""
    if not isinstance(z, Fxp):
        return None
    v = np.asarray(z.val)
    out = np.empty(v.shape, dtype=object)
    for idx in np.ndindex(v.shape):
        out[idx] = F(int(v[idx])) * F(2) ** (-z.n_frac)
    return out.tolist()


def tolist(e):
    return np.asarray(e, dtype=object).tolist() if isinstance(e, (list, np.ndarray)) else e


def check(tier, ident, descr, func, expected):
    """expected: nested list / scalar of Fractions or ints (exact oracle)"""
    global inside_violated
    try:
        z = func()
        got = exact(z)
        info = 'got %s (%s)' % (got, getattr(z, 'dtype', type(z).__name__))
    except Exception as e:                     # an exception is a violation as well (no value returned)
        got = None
        info = 'raised %s: %s' % (type(e).__name__, e)
    exp = tolist(expected)
    ok = got is not None and got == exp
    if not ok and tier == 'A':
        inside_violated = True
    print('%s %s [tier %s] %s | expected %s | %s' % ('holds' if ok else 'VIOLATION', ident, tier, descr, exp, info))


def fr(x, n_frac=0):
    return F(x) * F(2) ** (-n_frac)


# ----------------------------------------------------------------------------------------------------------------------
# A1  value ('repr') path of the accumulating functions works on int64 value arrays when n_frac <= 0 and wraps silently
# ----------------------------------------------------------------------------------------------------------------------
def a1_x():
    return Fxp([252] * 8, False, 6, -2)        # fxp-u6/-2, every element at the top code 63 (value 252); result fxp-u48/-16

E = 252 ** 8                                   # 16263137215612256256 >= 2**63, needs only 48 bits at n_frac = -16
check('A', 'A1a', "Fxp([252]*8, u6/-2).prod(method='repr')", lambda: a1_x().prod(method='repr'), E)
check('A', 'A1b', "Fxp([252]*8, u6/-2).cumprod(method='repr')[-1]", lambda: a1_x().cumprod(method='repr')[7], E)

def a1c():
    x = a1_x(); x.config.op_method = 'repr'
    return x.prod()
check('A', 'A1c', "config.op_method='repr'; x.prod()", a1c, E)

def a1d():
    x = a1_x(); x.config.op_out_like = Fxp(None, False, 70, 0)
    return x.prod()
check('A', 'A1d', "config.op_out_like=Fxp(u70/0); x.prod()", a1d, E)
check('A', 'A1e', "control: same product, default raw method", lambda: a1_x().prod(), E)

def a1f():
    a = Fxp([4095 * 2 ** 20] * 2, False, 12, -20)
    return a.dot(a, method='repr')
check('A', 'A1f', "dot of two fxp-u12/-20 vectors, method='repr' (more extreme n_frac)", a1f, 2 * (4095 * 2 ** 20) ** 2)

def a1g():
    s = Fxp([4095 * 2 ** 51] * 8, False, 12, -51)
    return s.sum(method='repr')
check('A', 'A1g', "sum of 8 fxp-u12/-51 elements, method='repr' (extreme n_frac)", a1g, 8 * 4095 * 2 ** 51)

# ----------------------------------------------------------------------------------------------------------------------
# A2  clip on the value path hands the Fxp bounds to np.clip, which dispatches back into fxpmath with a plain ndarray
#     as first operand; that array is re-quantised with a best-size format fitted to the data, not to the bounds
# ----------------------------------------------------------------------------------------------------------------------
def a2_ops():
    return Fxp([1, 2, 3], False, 12, 0), Fxp(100, False, 12, 0), Fxp(200, False, 12, 0)

check('A', 'A2a', "x=u12/0 [1,2,3]; x.clip(Fxp(100), Fxp(200), method='repr')",
      lambda: (lambda x, lo, hi: x.clip(lo, hi, method='repr'))(*a2_ops()), [100, 100, 100])

def a2b():
    x, lo, hi = a2_ops(); x.config.op_method = 'repr'
    return x.clip(lo, hi)
check('A', 'A2b', "config.op_method='repr'; x.clip(Fxp(100), Fxp(200))", a2b, [100, 100, 100])

def a2c():
    x, lo, hi = a2_ops(); x.config.op_out_like = Fxp(None, True, 24, 8)
    return x.clip(lo, hi)
check('A', 'A2c', "config.op_out_like=Fxp(s24/8); x.clip(Fxp(100), Fxp(200))", a2c, [100, 100, 100])

def a2d():
    x = Fxp([-0.5, -0.5, 0.5], True, 4, 2)
    return x.clip(Fxp(-0.25, True, 4, 2), Fxp(0.25, True, 4, 2), out_like=Fxp(None, True, 16, 4))
check('A', 'A2d', "x=s4/2 [-.5,-.5,.5]; x.clip(Fxp(-.25), Fxp(.25), out_like=Fxp(s16/4))", a2d, [F(-1, 4), F(-1, 4), F(1, 4)])
check('A', 'A2e', "control: same clip, default raw method",
      lambda: (lambda x, lo, hi: x.clip(lo, hi))(*a2_ops()), [100, 100, 100])
check('A', 'A2f', "control: value path with Python-number bounds",
      lambda: a2_ops()[0].clip(100, 200, method='repr'), [100, 100, 100])

# ----------------------------------------------------------------------------------------------------------------------
# A3  np.matmul (not handled by fxpmath: float64 / int64 evaluation + best-size wrap) at extreme n_frac
# ----------------------------------------------------------------------------------------------------------------------
def a3(fx, fy):
    x = Fxp(None, False, 12, fx); x.set_val(np.array([[3, 5]]), raw=True)
    y = Fxp(None, True, 12, fy); y.set_val(np.array([[7], [1]]), raw=True)
    return x, y

check('A', 'A3a', "np.matmul(u12/32 [[3,5]]raw, s12/32 [[7],[1]]raw): product needs n_frac 64",
      lambda: np.matmul(*a3(32, 32)), [[fr(26, 64)]])
check('A', 'A3b', "control: np.dot on the same operands", lambda: np.dot(*a3(32, 32)), [[fr(26, 64)]])
check('A', 'A3c', "control: np.matmul with n_frac 31 + 32", lambda: np.matmul(*a3(31, 32)), [[fr(26, 63)]])

def a3d(f=np.matmul):
    x = Fxp(None, False, 12, -40); x.set_val(np.array([[4095, 4095]]), raw=True)
    y = Fxp(None, True, 12, 0); y.set_val(np.array([[2047], [2047]]), raw=True)
    return f(x, y)
check('A', 'A3d', "np.matmul(u12/-40 [[4095,4095]]raw, s12/0 [[2047],[2047]]raw): int64 wrap, no status flag",
      a3d, [[2 * 4095 * 2047 * 2 ** 40]])
check('A', 'A3e', "control: np.dot on the same operands", lambda: a3d(np.dot), [[2 * 4095 * 2047 * 2 ** 40]])

# ----------------------------------------------------------------------------------------------------------------------
# B   arguable: clip bound (a fixed-point operand, n_word <= 12) finer than the format of the array
# ----------------------------------------------------------------------------------------------------------------------
check('B', 'B1a', "np.clip(Fxp([0,-1], s8/2), Fxp(-0.375, s8/3), Fxp(1, s8/3)) (no inaccuracy flag either)",
      lambda: np.clip(Fxp([0.0, -1.0], True, 8, 2), Fxp(-0.375, True, 8, 3), Fxp(1, True, 8, 3)), [0, F(-3, 8)])

def b1b():
    z1 = np.clip(Fxp([0.0, -1.0], True, 8, 2), -0.3, 1)
    z2 = np.clip(Fxp([-1.0, 0.0], True, 8, 2), -0.3, 1)
    # same values either way, but the inaccuracy flag depends on the order of the elements (np.vectorize takes the
    # output type from the first element)
    if z1.status['inaccuracy'] != z2.status['inaccuracy']:
        raise AssertionError('inaccuracy flag %s for [0,-1] but %s for [-1,0]' % (z1.status['inaccuracy'], z2.status['inaccuracy']))
    return z1
check('B', 'B1b', "np.clip(x, -0.3, 1): status depends on the order of the elements", b1b, [0, F(-3, 10)])

# ----------------------------------------------------------------------------------------------------------------------
# C   borderline (features / inputs the property does not name)
# ----------------------------------------------------------------------------------------------------------------------
def xs():
    x = Fxp(None, True, 4, 2); x.set_val(np.array([[1, -2, 5], [3, -8, 7]]), raw=True)
    return x
XS = [[F(1, 4), F(-1, 2), F(5, 4)], [F(3, 4), F(-2), F(7, 4)]]
MM = (np.array(XS, dtype=object) @ np.array(XS, dtype=object).T).tolist()

def c1():
    x = xs(); x.config.array_op_method = 'raw'
    return np.matmul(x, x.T)
check('C', 'C1', "config.array_op_method='raw'; np.matmul(x, x.T) returns the raw product as value", c1, MM)

def c2():
    x = xs()                                    # (operands created before the template is installed)
    Fxp.template = Fxp(None, True, 6, 1)
    try:
        return np.matmul(x, x.T)
    finally:
        Fxp.template = None
check('C', 'C2', "Fxp.template = Fxp(s6/1); np.matmul(x, x.T) is cut to the template format", c2, MM)

def c3():
    x = xs()                                    # (operand created before the template is installed: not scaled itself)
    Fxp.template = Fxp(None, True, 20, 1, scale=2, bias=1)
    try:
        return np.sum(x)
    finally:
        Fxp.template = None
def c3_check():
    z = c3()
    # value the object reports (scale and bias applied), as an exact Fraction
    v = F(int(z.val)) * F(2) ** (-z.n_frac) * F(z.scale) + F(z.bias)
    if v != F(3, 2):
        raise AssertionError('np.sum(x) reports %s (scale %s, bias %s inherited from the template)' % (v, z.scale, z.bias))
    return z
check('C', 'C3', "Fxp.template with scale=2, bias=1; np.sum(x) inherits the scaling", c3_check, F(3, 2))

check('C', 'C4a', "np.sum(Fxp([0,-1], s8/2), initial=1): `initial` counted in raw units",
      lambda: np.sum(Fxp([0.0, -1.0], True, 8, 2), initial=1), 0)
check('C', 'C4b', "np.max(Fxp([.25,.5], s8/2), initial=1)", lambda: np.max(Fxp([0.25, 0.5], True, 8, 2), initial=1), 1)

def c5():
    s = Fxp(None, True, 4, 2); s.set_val(3, raw=True)
    return np.dot(s, xs())
check('C', 'C5', "np.dot(0-d Fxp, 2-D Fxp) (IndexError on x.shape[-1])", c5,
      (F(3, 4) * np.array(XS, dtype=object)).tolist())
check('C', 'C6', "x @ x.T between two Fxp (no __matmul__)", lambda: xs() @ xs().T, MM)
check('C', 'C7', "x.dot([[1],[2],[3]]) (const_op_sizing='same': list taken in the format of x, result too)",
      lambda: xs().dot([[1], [2], [3]]), [[3], [2]])
check('C', 'C8', "np.clip(x, 0.5, -0.5) (a_min > a_max): NumPy gives a_max, raw path gives a_min",
      lambda: np.clip(Fxp([0.0, -1.0], True, 8, 2), 0.5, -0.5), [F(-1, 2), F(-1, 2)])

def c9():
    x = Fxp(None, False, 8, 8); x.set_val(np.array([255] * 7), raw=True)
    return np.cumprod(x)[6]
check('C', 'C9', "np.cumprod of 7 x fxp-u8/8 at the top code: 56-bit result word (> 53), last element", c9, fr(255 ** 7, 56))
check('C', 'C10', "x.sum(sizing='fit') with n_frac < 0 (ValueError: negative shift count)",
      lambda: Fxp([16, 32], True, 6, -4).sum(sizing='fit'), 48)
check('C', 'C11', "np.reshape(x, (6,)) (not a C15 function; NumPy >= 2.4 has no `newshape`)",
      lambda: np.reshape(xs(), (6,)), sum(XS, []))

sys.exit(1 if inside_violated else 0)
