#!/usr/bin/env python
"""C16 reproducers. fxpmath is imported from $FXP_REPO (default /tmp/wth-C16)."""
import os, sys, math
sys.path.insert(0, os.environ.get('FXP_REPO', '/tmp/wth-C16'))
from fractions import Fraction
import numpy as np
from fxpmath import Fxp

violations = 0

def run(title, thunk, expected, borderline=False):
    """thunk() -> observed; compared with `expected` (exact oracle)."""
    global violations
    try:
        got = thunk()
        if isinstance(got, np.ndarray):
            got = got.tolist()
        elif isinstance(got, np.generic):
            got = got.item()
        ok = (got == expected) and not isinstance(got, Fxp)
        shown = repr(got)
    except Exception as e:          # an exception is not "the truth value of the relation"
        ok = False
        shown = '%s(%s)' % (type(e).__name__, e)
    if not ok:
        print('%s %s: got %s expected %r' % ('BORDERLINE' if borderline else 'VIOLATION', title, shown, expected))
        if not borderline:
            violations += 1
    else:
        print('ok        %s: got %s' % (title, shown))

# ---------------------------------------------------------------- finding 1
# plain NumPy number (scalar / 0-d / 1-d array) on the LEFT of a comparison with an Fxp
x = Fxp(0.5, True, 8, 4)            # code 8, value exactly 1/2
a = Fxp([0.5, 0.25], True, 8, 4)    # codes 8, 4
vx = Fraction(int(x.raw()), 2**x.n_frac)
va = [Fraction(int(c), 2**a.n_frac) for c in a.raw()]
run('np.float64(0.25) <  Fxp(0.5)', lambda: np.float64(0.25) < x,  Fraction(1, 4) < vx)
run('np.float64(0.5)  == Fxp(0.5)', lambda: np.float64(0.5) == x,  Fraction(1, 2) == vx)
run('np.float64(0.5)  != Fxp(0.5)', lambda: np.float64(0.5) != x,  Fraction(1, 2) != vx)
run('np.int64(1)      >= Fxp(0.5)', lambda: np.int64(1) >= x,      1 >= vx)
run('np.float32(0.25) >  Fxp(0.5)', lambda: np.float32(0.25) > x,  Fraction(1, 4) > vx)
run('np.float64(0.25) <= Fxp([0.5,0.25])', lambda: np.float64(0.25) <= a, [Fraction(1, 4) <= v for v in va])
run('np.array([0.5,0.5]) == Fxp([0.5,0.25])', lambda: np.array([0.5, 0.5]) == a, [Fraction(1, 2) == v for v in va])

# ---------------------------------------------------------------- finding 2
# int() / float() of a size-1 (non 0-d) Fxp
for mk, name in ((lambda: Fxp([-3.5], True, 8, 4), 'Fxp([-3.5])'),
                 (lambda: Fxp([[-3.5]], True, 8, 4), 'Fxp([[-3.5]])'),
                 (lambda: Fxp(-3.5, True, 8, 4).flatten(), 'Fxp(-3.5).flatten()')):
    y = mk()
    code = int(np.asarray(y.raw()).flatten()[0])
    v = Fraction(code, 2**y.n_frac)
    run('int(%s)' % name,   lambda: int(y),   math.floor(v))
    run('float(%s)' % name, lambda: Fraction(float(y)), v)

# ---------------------------------------------------------------- borderline A
# Python int that is not a double, against a float-vdtype Fxp of a format with n_word<=24 (n_frac=-31)
b = Fxp(2.0**53, True, 24, -31)     # code 2**22, value exactly 2**53
vb = Fraction(int(b.raw())) * 2**31
run('Fxp(2.0**53, s24/-31) == 2**53+1', lambda: b == 2**53 + 1, vb == 2**53 + 1, borderline=True)
run('Fxp(2.0**53, s24/-31) <  2**53+1', lambda: b < 2**53 + 1,  vb < 2**53 + 1,  borderline=True)

# ---------------------------------------------------------------- borderline B
# astype(int)/int() with n_frac >= 63 (outside the n_frac range quantified for conversions)
c = Fxp(-3, True, 8, 63, raw=True)
run('int(Fxp(raw=-3, s8/63))', lambda: int(c), math.floor(Fraction(-3, 2**63)), borderline=True)
run('Fxp(raw=-3, s8/63).astype(int)', lambda: int(c.astype(int)), math.floor(Fraction(-3, 2**63)), borderline=True)

print('violations reproduced:', violations)
sys.exit(1 if violations else 0)
