#!/usr/bin/env python
"""C07 hunt 3 - re-check of the findings (F1 clearly inside the quantifier, F1b and B1-B5 borderline) plus a compact
re-run of the core sweeps that held. Exact oracles: Python ints / fractions.Fraction only.
Exit status 1 if a clearly-inside finding is violated, else 0."""
import sys, os, warnings, random, operator
sys.path.insert(0, os.environ.get('FXP_REPO', '/repo'))
import numpy as np
from fractions import Fraction as F
import fxpmath
from fxpmath import Fxp
warnings.simplefilter('ignore')

inside_violated = False
def report(violated, tag, inside, detail=''):
    global inside_violated
    print(('VIOLATION' if violated else 'holds') + (' [inside] ' if inside else ' [borderline] ') + tag + (': ' + detail if detail else ''))
    if violated and inside: inside_violated = True

def value_of(z, idx=()):
    return F(float(np.asarray(z.get_val()).real[idx]))


# ---------------------------------------------------------------- F1 (INSIDE): depth-4 product of 16 integer-valued leaves, value ('repr') method
def product_tree(leaves, mul):
    while len(leaves) > 1:
        leaves = [mul(a, b) for a, b in zip(leaves[::2], leaves[1::2])]
    return leaves[0]
def f1_leaves(carrier=int):
    # 5 x fxp-u4/-1 holding 30 (code 15, the maximum) and 11 x fxp-u3/-1 holding 14 (code 7, the maximum); n_frac = -1 is in [-1, n_word+1]
    return [Fxp(carrier(30), False, 4, -1, op_method='repr') for _ in range(5)] + [Fxp(carrier(14), False, 3, -1, op_method='repr') for _ in range(11)]
exact_value = 30**5 * 14**11                     # 98404433622835200000 >= 2**64
exact_code = F(exact_value) * F(2)**-16          # result format fxp-u53/-16 (sum of the words, sum of the fractions)
assert exact_code.denominator == 1 and exact_code < 2**53
for tag, mul, carrier in [('x*y (config.op_method=repr)', lambda a, b: a * b, int),
                          ('fxpmath.mul(x, y, method=repr)', lambda a, b: fxpmath.mul(a, b, method='repr'), int),
                          ('x*=y, leaves from np.int64', lambda a, b: a.__imul__(b), np.int64)]:
    z = product_tree(f1_leaves(carrier), mul)
    flags = [k for k in ('overflow', 'underflow', 'inaccuracy') if z.status[k]]
    bad = z.dtype != 'fxp-u53/-16' or F(int(z.val)) != exact_code or bool(flags)
    report(bad, 'F1 16-leaf product tree of integer-valued leaves, ' + tag, True,
           'exact code %d, library code %d (dtype %s, flags %s)' % (exact_code, int(z.val), z.dtype, flags))
# control: the same tree is exact with float-valued leaves, with the raw method and through np.multiply (which uses the raw method)
zf = product_tree(f1_leaves(float), lambda a, b: a * b)
zn = product_tree(f1_leaves(int), lambda a, b: np.multiply(a, b))
report(F(int(zf.val)) != exact_code or F(int(zn.val)) != exact_code, 'F1-control same tree with float-valued leaves / via np.multiply', True,
       'codes %d and %d' % (int(zf.val), int(zn.val)))

# ---------------------------------------------------------------- F1b (BORDERLINE: n_frac = -30 is outside [-1, n_word+1]): the same defect with two operands
x = Fxp(2**40, False, 11, -30, op_method='repr')        # code 1024
z = x * x                                               # exact: 2**80 = code 2**20 of fxp-u22/-60
report(int(z.val) != 2**20 or z.dtype != 'fxp-u22/-60', 'F1b Fxp(2**40, False, 11, -30, op_method=repr) squared', False,
       'exact code %d, library code %d, flags %s' % (2**20, int(z.val), [k for k in ('overflow', 'underflow', 'inaccuracy') if z.status[k]]))

# ---------------------------------------------------------------- B1: scaled class template -> the sum is read through the template's scale / bias
x = Fxp(3, False, 4, 0, raw=True); y = Fxp(5, False, 4, 1, raw=True)          # 3.0 and 2.5, plain unscaled operands
exact = F(3) + F(5, 2)
try:
    Fxp.template = Fxp(None, True, 16, 8, scale=2.0, bias=1.0)
    z = x + y
    zr = fxpmath.add(x, y, method='repr')
finally:
    Fxp.template = None
report(value_of(z) != exact or z.scaled, 'B1 x+y under a scaled Fxp.template', False,
       'exact %s, library value %s (code %d, dtype %s, scaled=%s); repr method stores code %d' % (exact, value_of(z), int(z.val), z.dtype, z.scaled, int(zr.val)))

# ---------------------------------------------------------------- B2: complex class template -> real sum gets a complex dtype
try:
    Fxp.template = Fxp(1 + 1j, True, 16, 8)
    z = x + y; zm = np.multiply(x, y)
finally:
    Fxp.template = None
report(z.dtype != 'fxp-u6/1' or zm.dtype != 'fxp-u8/1', 'B2 x+y, np.multiply(x,y) under a complex Fxp.template', False,
       'growth rules give fxp-u6/1 and fxp-u8/1, library dtype %s and %s (value %r)' % (z.dtype, zm.dtype, z.get_val()))

# ---------------------------------------------------------------- B3: explicit narrow value type (set_val(..., vdtype=np.float16)) + op_method='repr'
a = Fxp(None, True, 20, 0); a.set_val([70001, 3], raw=True, vdtype=np.float16); a.config.op_method = 'repr'
z = a + a
got = [int(v) for v in z.val]
report(got != [140002, 6] or z.status['overflow'], 'B3 a+a, value method, operand value type float16', False,
       'exact codes [140002, 6], library %s, status %s' % (got, {k: v for k, v in z.status.items() if v}))

# ---------------------------------------------------------------- B4: empty operands (obtained by slicing) raise instead of giving an empty result
e = Fxp([1, 2, 3], True, 8, 2, raw=True)[1:1]
try:
    z = e + e; ok = z.val.shape == (0,)
    report(not ok, 'B4 empty + empty', False)
except Exception as ex:
    report(True, 'B4 empty + empty (x[1:1] + x[1:1])', False, 'raises ' + repr(ex))

# ---------------------------------------------------------------- B5: ufunc methods bypass the growth rules (value is exact, format is best-size)
x3 = Fxp([1, 2, 3], True, 8, 2, raw=True); y3 = Fxp([5, 6, 7], False, 8, 1, raw=True)
z = np.add.outer(x3, y3)
exact_ok = all(value_of(z, (i, j)) == F(int(x3.val[i]), 4) + F(int(y3.val[j]), 2) for i in range(3) for j in range(3))
report(z.dtype != 'fxp-s11/2' or not exact_ok, 'B5 np.add.outer(x, y)', False, 'growth rule gives fxp-s11/2, library dtype %s (values exact: %s)' % (z.dtype, exact_ok))

# ---------------------------------------------------------------- what held: compact re-run of the core oracle sweep
def lohi(s, w): return (-(1 << (w-1)), (1 << (w-1)) - 1) if s else (0, (1 << w) - 1)
def efmt(op, a, b):
    (sa, wa, fa), (sb, wb, fb) = a, b; s = sa or sb
    if op in '+-':
        f = max(fa, fb); i = max(wa - fa - sa, wb - fb - sb) + 1; return bool(s), s + i + f, f
    return bool(s), wa + wb, fa + fb
def ecode(op, ca, fa, cb, fb, fmt, ov):
    va, vb = F(ca) / F(2)**fa, F(cb) / F(2)**fb
    c = (va + vb if op == '+' else va - vb if op == '-' else va * vb) * F(2)**fmt[2]
    assert c.denominator == 1; c = int(c); uf = False
    if c < lohi(fmt[0], fmt[1])[0]:
        uf = True; c = 0 if ov == 'saturate' else c % (1 << fmt[1])
    assert c <= lohi(fmt[0], fmt[1])[1]
    return c, uf
OPS = [{'+': operator.add, '-': operator.sub, '*': operator.mul}, {'+': fxpmath.add, '-': fxpmath.sub, '*': fxpmath.mul}, {'+': np.add, '-': np.subtract, '*': np.multiply}]
def run(fa, fb, ca, cb, cfg, form):
    bad = 0
    x = Fxp(ca.tolist(), *fa, raw=True, **cfg); y = Fxp(cb.tolist(), *fb, raw=True, **cfg)
    for op in '+-*':
        fmt = efmt(op, fa, fb)
        if fmt[1] > 53: continue
        z = OPS[form][op](x, y)
        A, B = np.broadcast_arrays(ca, cb); anyuf = False; ok = (z.signed, z.n_word, z.n_frac) == fmt and z.val.shape == A.shape
        for idx in np.ndindex(*A.shape):
            c, uf = ecode(op, int(A[idx]), fa[2], int(B[idx]), fb[2], fmt, cfg['overflow']); anyuf |= uf
            ok = ok and int(z.val[idx]) == c and value_of(z, idx) == F(c) / F(2)**fmt[2]
        ok = ok and not z.status['overflow'] and z.status['underflow'] == anyuf and (anyuf or not z.status['inaccuracy'])
        bad += not ok
    return bad
bad = 0; n = 0
fm4 = [(s, w, f) for s in (False, True) for w in range(1, 4) for f in range(-1, w + 2)]
for fa in fm4:
    for fb in fm4:
        ca = np.array(range(lohi(*fa[:2])[0], lohi(*fa[:2])[1] + 1), dtype=object).reshape(-1, 1)
        cb = np.array(range(lohi(*fb[:2])[0], lohi(*fb[:2])[1] + 1), dtype=object).reshape(1, -1)
        bad += run(fa, fb, ca, cb, dict(overflow='saturate', op_method='raw'), 0); n += 1
r = random.Random(11)
for it in range(1500):
    def fm():
        s = r.random() < .5; w = r.randint(1, 52); return s, w, r.randint(-1, w + 1)
    fa, fb = fm(), fm()
    ca = np.array(lohi(*fa[:2]), dtype=object).reshape(-1, 1); cb = np.array(lohi(*fb[:2]), dtype=object).reshape(1, -1)
    bad += run(fa, fb, ca, cb, dict(overflow=r.choice(['saturate', 'wrap']), op_method=r.choice(['raw', 'repr']), rounding=r.choice(['trunc', 'around', 'ceil'])), r.randrange(3)); n += 1
report(bad > 0, 'core sweep: all code pairs for words <= 3, corner codes of 1500 random format pairs (result word <= 53), 3 call forms, raw / repr, saturate / wrap', True, '%d mismatches in %d format pairs' % (bad, n))

sys.exit(1 if inside_violated else 0)
