#!/usr/bin/env python
"""C15 reproducers. fxpmath is imported from $FXP_REPO (default /tmp/wth-C15)."""
import os, sys, warnings
sys.path.insert(0, os.environ.get('FXP_REPO', '/tmp/wth-C15'))
warnings.simplefilter('ignore')
import numpy as np
from fractions import Fraction as F
from fxpmath import Fxp

def exact(z):
    """exact values (nested lists of Fraction) of a Fxp, from its raw integers"""
    if not isinstance(z, Fxp):
        return 'not a Fxp: %r' % (z,)
    v = np.asarray(z.val)
    conv = np.vectorize(lambda r: F(int(r)) * F(2) ** (-z.n_frac), otypes=[object])
    return conv(v).tolist()

def S(v):
    if isinstance(v, list):
        return '[' + ', '.join(S(e) for e in v) + ']'
    return str(v)

violations = 0
def check(title, thunk, expected):
    """thunk returns a Fxp; expected is a (nested list of) Fraction"""
    global violations
    try:
        z = thunk()
        got = exact(z)
        extra = ' dtype=%s status=%s' % (z.dtype, {k: v for k, v in z.status.items() if v}) if isinstance(z, Fxp) else ''
    except Exception as e:
        got = 'raised %s: %s' % (type(e).__name__, e); extra = ''
    if got != expected:
        violations += 1
        print('VIOLATION %s: got %s%s expected %s' % (title, S(got), extra, S(expected)))
    else:
        print('ok        %s' % title)

# ---------------------------------------------------------------- core findings
# F1 transpose with an explicit axes permutation: axes is ignored, always .T
def f1(route):
    x = Fxp([[1.0, 2.0, 3.0], [4.0, 5.0, 6.0]], signed=True, n_word=8, n_frac=2)
    return np.transpose(x, (0, 1)) if route == 'np' else x.transpose((0, 1))
e1 = [[F(1), F(2), F(3)], [F(4), F(5), F(6)]]
check('F1 np.transpose(x, axes=(0,1)) ignores axes (returns x.T)', lambda: f1('np'), e1)
check('F1 x.transpose((0,1)) ignores axes (returns x.T)', lambda: f1('meth'), e1)

# F2 cumprod overflows its "optimal" format when n_frac > n_word
def f2(route):
    x = Fxp([0.375, 0.375], signed=False, n_word=2, n_frac=3)      # raw [3, 3], exactly 3/8
    return np.cumprod(x) if route == 'np' else x.cumprod()
e2 = [F(3, 8), F(9, 64)]
check('F2 np.cumprod overflows when n_frac > n_word (u2/3)', lambda: f2('np'), e2)
check('F2 x.cumprod() overflows when n_frac > n_word (u2/3)', lambda: f2('meth'), e2)
def f2b():
    x = Fxp([[0.375, 0.25], [0.375, 0.125]], signed=False, n_word=2, n_frac=3)
    return np.cumprod(x, axis=0)
check('F2 np.cumprod(axis=0) overflows when n_frac > n_word (2x2 u2/3)', f2b, [[F(3, 8), F(1, 4)], [F(9, 64), F(1, 32)]])
def f2c():
    x = Fxp(np.array([-4, 3]), signed=True, n_word=3, n_frac=6, raw=True)   # -1/16 (most negative code), 3/64
    return np.cumprod(x)
check('F2 np.cumprod overflows when n_frac > n_word (s3/6, most negative code)', f2c, [F(-1, 16), F(-3, 1024)])

# F3 cumprod raises for a negative n_frac (sum/cumsum/prod/dot... all work there)
def f3(route):
    x = Fxp([12, 8], signed=True, n_word=6, n_frac=-2)              # raw [3, 2], exactly 12 and 8
    return np.cumprod(x) if route == 'np' else x.cumprod()
e3 = [F(12), F(96)]
check('F3 np.cumprod raises with negative n_frac (s6/-2)', lambda: f3('np'), e3)
check('F3 x.cumprod() raises with negative n_frac (s6/-2)', lambda: f3('meth'), e3)

# ---------------------------------------------------------------- borderline findings
# B1 np.matmul is not handled by fxpmath: with config.array_op_method='raw' the raw product is taken as the value
def b1():
    m = Fxp([[0.5, 1.0], [1.5, 2.0]], signed=True, n_word=8, n_frac=4)
    m.config.array_op_method = 'raw'
    return np.matmul(m, m)
check('B1 np.matmul with config.array_op_method="raw" returns raw products as values', b1, [[F(7, 4), F(5, 2)], [F(15, 4), F(11, 2)]])
def b1b():
    m = Fxp([[0.5, 1.0], [1.5, 2.0]], signed=True, n_word=8, n_frac=4)
    return m @ m
check('B1 Fxp @ Fxp is not supported', b1b, [[F(7, 4), F(5, 2)], [F(15, 4), F(11, 2)]])

# B2 clip: one-sided bounds, narrow NumPy integer scalars, Fxp bounds
X = lambda: Fxp(np.array([-2048, -500, 0, 17, 2047]), signed=True, n_word=12, n_frac=4, raw=True)
check('B2 np.clip(x, a_min, None) raises', lambda: np.clip(X(), -10, None), [F(-10), F(-10), F(0), F(17, 16), F(2047, 16)])
check('B2 x.clip(a_min=...) raises', lambda: X().clip(a_min=-10), [F(-10), F(-10), F(0), F(17, 16), F(2047, 16)])
check('B2 np.clip with np.int8 bounds wraps the bounds', lambda: np.clip(X(), np.int8(-10), np.int8(10)), [F(-10), F(-10), F(0), F(17, 16), F(10)])
check('B2 np.clip with Fxp bounds', lambda: np.clip(Fxp([-3.0, 0.5, 3.0], True, 8, 4), Fxp(-1.5, True, 8, 4), Fxp(2.25, True, 8, 4)), [F(-3, 2), F(1, 2), F(9, 4)])
def b2m():
    lo = np.array([-10] * 5); hi = np.array([10] * 5)
    np.clip(X(), lo, hi)
    return Fxp(np.concatenate([lo, hi]), signed=True, n_word=16, n_frac=0)
check("B2 np.clip mutates the caller's bound arrays in place", b2m, [F(-10)] * 5 + [F(10)] * 5)

# B3 `initial` of sum / max / min is taken in raw units
check('B3 np.sum(x, initial=1) adds 1 LSB instead of 1', lambda: np.sum(Fxp([0.5, 0.5], True, 8, 4), initial=1), F(2))
check('B3 np.max(x, initial=1) compares with 1 LSB instead of 1', lambda: np.max(Fxp([-0.5, 0.5], True, 8, 4), initial=1), F(1))

# B4 valid numpy calls that raise: tuple axis in prod, empty diagonal in trace
check('B4 np.prod(x, axis=(0,1)) raises', lambda: np.prod(Fxp([[0.5, 1.5], [2.0, 1.0]], True, 8, 4), axis=(0, 1)), F(3, 2))
check('B4 np.trace with an empty diagonal raises', lambda: np.trace(Fxp([[1.0, 2.0, 3.0], [4.0, 5.0, 6.0]], True, 8, 4), offset=3), F(0))

# B5 complex operands: product growth rule misses one bit
def b5():
    c = Fxp(np.array([-128 - 128j] * 2), signed=True, n_word=8, n_frac=4, raw=True)   # -8-8j
    z = np.dot(c, c)                                                                 # exact: 256j
    return Fxp(np.array([z.val.real, z.val.imag]), signed=True, n_word=z.n_word, n_frac=z.n_frac, raw=True)
check('B5 np.dot of complex arrays at the most negative code overflows', b5, [F(0), F(256)])

# B6 method route x.dot(<non-Fxp>) uses const_op_sizing='same' by default -> saturates
check('B6 x.dot(list) (default config) saturates, np.dot(x, list) does not',
      lambda: Fxp([[7.5, 7.5], [7.5, 7.5]], True, 8, 4).dot([[7.5, 7.5], [7.5, 7.5]]), [[F(225, 2)] * 2] * 2)

print('%d violation(s) reproduced' % violations)
sys.exit(1 if violations else 0)
