#!/usr/bin/env python
"""C07 hunt, round 2: reproducers. All findings are BORDERLINE with respect to the quantifier of C07
(no violation was found for plain, unscaled operands whose optimal result word is <= 53 bits)."""
import os, sys
sys.path.insert(0, os.environ.get('FXP_REPO', '/repo'))
from fractions import Fraction
import numpy as np
import fxpmath
from fxpmath import Fxp

violations = 0

def report(title, got, expected):
    global violations
    violations += 1
    print('VIOLATION {}: got {} expected {}'.format(title, got, expected))

def value(z):
    """exact value(s) of an unscaled Fxp from its raw codes"""
    return [Fraction(int(v)) / Fraction(2) ** z.n_frac for v in np.asarray(z.val).flatten()]

# ---------------------------------------------------------------------------------------------------
# F1 [borderline: scaled operand] the scale / bias of the RIGHT operand is ignored when the left one is not scaled
# ---------------------------------------------------------------------------------------------------
x = Fxp(2.0, True, 8, 2)                            # plain operand, value 2.0
y = Fxp(10.5, True, 16, 8, scale=2, bias=1)         # scaled operand, y() == 10.5 (raw fractional value 4.75)
assert x() == 2.0 and y() == 10.5
for name, f, exact in (('x + y', lambda: x + y, Fraction(25, 2)), ('np.add(x, y)', lambda: np.add(x, y), Fraction(25, 2)),
                       ('fxpmath.add(x, y)', lambda: fxpmath.add(x, y), Fraction(25, 2)),
                       ('x - y', lambda: x - y, Fraction(-17, 2)), ('x * y', lambda: x * y, Fraction(21))):
    z = f()
    if value(z) != [exact]:
        report('F1 [borderline: scaled operand] {} with unscaled x=2.0 and scaled y=10.5 (reverse order y?x is right)'.format(name),
               float(value(z)[0]), float(exact))

# ---------------------------------------------------------------------------------------------------
# F2 [borderline: scaled operand] the optimal size ignores scale / bias of a scaled LEFT operand: overflow, saturated result
# ---------------------------------------------------------------------------------------------------
a = Fxp(10128.5, signed=False, n_word=12, n_frac=1, scale=1, bias=10000)    # the README example
b = Fxp(3.5, True, 8, 2)
z = a + b
if z.status['overflow'] or value(z) != [Fraction(10132)]:
    report('F2 [borderline: scaled operand] a + b, a = README scaled example 10128.5, b = 3.5',
           '{} (overflow flag {})'.format(float(value(z)[0]), z.status['overflow']), '10132.0 (no overflow flag)')

# ---------------------------------------------------------------------------------------------------
# F3 [borderline: explicit narrow vdtype] op_method='repr' computes in the float32 value type of the operand
# ---------------------------------------------------------------------------------------------------
p = Fxp(None, True, 30, 0, op_method='repr')
p.set_val([2**28 + 1, 5], raw=True, vdtype=np.float32)       # documented `vdtype` argument of set_val
q = Fxp(None, True, 20, 0)
q.set_val([1, 1], raw=True)
z = p + q                                                     # fxp-s31/0 : well inside 53 bits
if [int(v) for v in z.val] != [2**28 + 2, 6]:
    report('F3 [borderline: explicit float32 vdtype, op_method=repr] [2**28+1, 5] + [1, 1]', [int(v) for v in z.val], [2**28 + 2, 6])

# ---------------------------------------------------------------------------------------------------
# F4 [borderline: empty operands] an empty slice cannot be added / multiplied (IndexError instead of an empty result)
# ---------------------------------------------------------------------------------------------------
u = Fxp([1.5, -2.25, 3.0], True, 8, 2)
v = Fxp([3.0, 0.5, 1.0], False, 8, 1)
try:
    z = u[0:0] + v[0:0]
    if z.shape != (0,):
        report('F4 [borderline: empty operands] u[0:0] + v[0:0]', z.shape, (0,))
except Exception as e:
    report('F4 [borderline: empty operands] u[0:0] + v[0:0]', repr(e), 'an empty fxp-s11/2 result')

sys.exit(1 if violations else 0)
