#!/usr/bin/env python
"""
C05 hunt (round 3) - re-check of every finding with an exact oracle (Python ints / fractions.Fraction only).
One line per finding: "VIOLATION ..." or "holds ...".  Exit status 1 if a clearly-inside finding is violated, else 0.
"""
import os, sys, math
sys.path.insert(0, os.environ.get('FXP_REPO', '/repo'))
import numpy as np
from fractions import Fraction as F
from decimal import Decimal
import fxpmath
from fxpmath import Fxp, Config
import fxpmath.functions as fn


# ---------------------------------------------------------------- exact oracle
def rnd(x, m):
    x = F(x)
    if m == 'floor': return math.floor(x)
    if m == 'ceil': return math.ceil(x)
    if m in ('fix', 'trunc'): return math.trunc(x)
    if m == 'around': return round(x)          # Fraction: ties to even
    raise ValueError(m)

def code(v, signed, n_word, n_frac, m):
    """exact code of the real v in the format, saturating"""
    k = rnd(F(v) * F(2) ** n_frac, m)
    lo, hi = (-(1 << (n_word - 1)), (1 << (n_word - 1)) - 1) if signed else (0, (1 << n_word) - 1)
    return max(lo, min(hi, k))

def raws(x):
    return [int(t) for t in np.asarray(x.val).flatten().tolist()]

def flags(x):
    return tuple(k for k in ('overflow', 'underflow', 'inaccuracy') if x.status[k])


results = []      # (inside?, ok?, text)
def report(name, inside, ok, detail):
    results.append((inside, ok))
    print('%s %s [%s] %s' % ('holds    ' if ok else 'VIOLATION', name, 'inside' if inside else 'borderline', detail))

def guarded(name, inside, fn_):
    try:
        ok, detail = fn_()
    except Exception as e:          # an exception instead of a stored value is reported as a violation of that finding
        ok, detail = False, 'raised %r' % (e,)
    report(name, inside, ok, detail)


# ---------------------------------------------------------------- F1 (inside): np.longdouble scalar
def f1():
    LD = np.longdouble
    if np.finfo(LD).nmant < 62:
        return True, 'not applicable: long double has no 64-bit significand on this platform'
    out = []
    ok = True
    cases = [(LD(1) + LD(2) ** -60, F(1) + F(1, 2 ** 60), 'ceil'),
             (-(LD(1) + LD(2) ** -60), -(F(1) + F(1, 2 ** 60)), 'floor'),
             (LD(0.5) + LD(2) ** -60, F(1, 2) + F(1, 2 ** 60), 'around')]
    for v, exact, m in cases:
        # the carrier really holds `exact`
        hi = float(v); lo = float(v - LD(hi)); assert F(hi) + F(lo) == exact
        want = code(exact, True, 8, 0, m)
        x = Fxp(v, True, 8, 0, rounding=m)                      # scalar
        a = Fxp(np.array([v]), True, 8, 0, rounding=m)          # the same number in a 1-element array (reference carrier)
        o = Fxp(np.array([v, 3], dtype=object), True, 8, 0, rounding=m)
        got, gota, goto = raws(x)[0], raws(a)[0], raws(o)[0]
        ok &= (got == want and goto == want and x.status['inaccuracy'])
        out.append('%s: scalar->%d objarray->%d array->%d want %d inaccuracy(scalar)=%s' % (m, got, goto, gota, want, x.status['inaccuracy']))
    return ok, '; '.join(out)
guarded('F1 longdouble scalar is rounded to double before quantization', True, f1)


# ---------------------------------------------------------------- F2 (inside): unsigned value type survives, re-store is not a no-op
def f2():
    x = Fxp([np.uint64(3), np.uint64(5)], True, 8, 0)          # value type of the object: uint64
    z = ~x                                                      # codes -4, -6 (value type kept)
    assert raws(z) == [-4, -6] and [F(t) for t in np.asarray(z.get_val()).tolist()] == [F(-4), F(-6)]
    want = [code(-4, True, 16, 0, 'trunc'), code(-6, True, 16, 0, 'trunc')]
    y = Fxp(z, True, 16, 0)                                     # -4, -6 are representable in s16/0
    z2 = ~x; z2.set_val(z2)                                     # re-storing an object's own value
    ok = raws(y) == want and flags(y) == () and raws(z2) == [-4, -6] and flags(z2) == ()
    return ok, 'Fxp(z, s16/0) -> %s flags %s (want %s, no flag); z.set_val(z) -> %s flags %s (want [-4, -6], no flag)' % (
        raws(y), flags(y), want, raws(z2), flags(z2))
guarded('F2 uint64 value type kept by ~x: storing z (value -4) saturates to upper', True, f2)


# ---------------------------------------------------------------- B1 (borderline): decimal strings
def b1():
    out = []; ok = True
    for s, fmt, m in [('1.00000000000000000001', (True, 8, 0), 'ceil'),
                      ('0.2500000000000000001', (True, 8, 1), 'around'),
                      ('-1.00000000000000000001', (True, 8, 0), 'floor')]:
        exact = F(Decimal(s))
        want = code(exact, *fmt, m)
        x = Fxp(s, *fmt, rounding=m)
        d = Fxp(Decimal(s), *fmt, rounding=m)
        ok &= raws(x)[0] == want
        out.append('%r %s: str->%d Decimal->%d want %d inaccuracy(str)=%s' % (s, m, raws(x)[0], raws(d)[0], want, x.status['inaccuracy']))
    return ok, '; '.join(out)
guarded('B1 decimal string is rounded to double before quantization', False, b1)


# ---------------------------------------------------------------- B2 (borderline): binary string with more fractional digits than n_frac
def b2():
    out = []; ok = True
    for s, exact, fmt, m in [('0b0.011', F(3, 8), (True, 8, 1), 'trunc'), ('0b0.011', F(3, 8), (True, 8, 1), 'ceil'),
                             ('0b01.1', F(3, 2), (True, 8, 0), 'floor')]:
        want = code(exact, *fmt, m)
        x = Fxp(s, *fmt, rounding=m)
        ok &= raws(x)[0] == want
        out.append('%r in n_frac=%d %s: code %d (value %s) want %d flags %s' % (s, fmt[2], m, raws(x)[0], x.get_val(), want, flags(x)))
    return ok, '; '.join(out)
guarded('B2 binary string with a point and more fractional digits than n_frac', False, b2)


# ---------------------------------------------------------------- B3 (borderline): object array whose first element is a bool / a narrow NumPy integer
def b3():
    x = Fxp(np.array([True, 5, 7], dtype=object), True, 8, 0)
    ok = raws(x) == [1, 5, 7]
    detail = 'object [True, 5, 7] -> %s flags %s (want [1, 5, 7])' % (raws(x), flags(x))
    try:
        y = Fxp(np.array([np.int8(5), 1000], dtype=object), True, 16, 0)
        ok &= raws(y) == [5, 1000]
        detail += '; object [int8(5), 1000] -> %s' % raws(y)
    except Exception as e:
        ok = False
        detail += '; object [int8(5), 1000] raised %r (the reversed order stores [1000, 5])' % (e,)
    return ok, detail
guarded('B3 object array: type of the FIRST element decides the cast of all', False, b3)


# ---------------------------------------------------------------- B4 (borderline): op_out_like / out_like= : product rounded to double first
def b4():
    vx = F(1) + F(1, 2 ** 30)
    x = Fxp(float(vx), True, 40, 30); y = Fxp(float(vx), True, 40, 30)
    assert F(int(x.val), 2 ** 30) == vx and not x.status['inaccuracy']
    z = Fxp(None, True, 40, 29, rounding='ceil')
    want = code(vx * vx, True, 40, 29, 'ceil')
    r_out = fn.mul(x, y, out=Fxp(None, True, 40, 29, rounding='ceil'))
    r_like = fn.mul(x, y, out_like=z)
    x.config.op_out_like = z
    r_cfg = x * y
    ok = raws(r_like)[0] == want and raws(r_cfg)[0] == want and r_like.status['inaccuracy']
    return ok, 'x*y exact=1+2^-29+2^-60 into s40/29 ceil: out= %d, out_like= %d (inaccuracy %s), config.op_out_like %d, want %d' % (
        raws(r_out)[0], raws(r_like)[0], r_like.status['inaccuracy'], raws(r_cfg)[0], want)
guarded('B4 out_like= / config.op_out_like computes in float64 before the configured rounding', False, b4)


# ---------------------------------------------------------------- B5 (borderline): x / y ignores the configured rounding (always floor)
def b5():
    x = Fxp(1, True, 16, 8, rounding='ceil'); y = Fxp(3, like=x)
    z = x / y
    want = code(F(1, 3), z.signed, z.n_word, z.n_frac, z.config.rounding)
    return raws(z)[0] == want, '1/3 into %s with rounding=%s: code %d want %d' % (z.dtype, z.config.rounding, raws(z)[0], want)
guarded('B5 integer-code division floors whatever the rounding mode', False, b5)


# ---------------------------------------------------------------- B6 (borderline): Config(template) drops explicit keyword arguments
def b6():
    try:
        Config.template = Config(rounding='floor')
        c = Config(rounding='ceil')
        x = Fxp(0.3, True, 8, 2, config=c)
    finally:
        Config.template = None
    want = code(F(0.3), True, 8, 2, 'ceil')
    return (c.rounding == 'ceil' and raws(x)[0] == want), "Config(rounding='ceil') with Config.template set -> rounding %r; Fxp(0.3, s8/2, config=c) -> %d want %d" % (
        c.rounding, raws(x)[0], want)
guarded('B6 Config(rounding=...) is overridden by Config.template', False, b6)


# ---------------------------------------------------------------- B7 (borderline): fxp_like() keeps the flags of the model object
def b7():
    x = Fxp(300.0, True, 8, 0)          # overflow + inaccuracy raised on x
    y = fn.fxp_like(x, 1.0)             # 1.0 is representable
    w = Fxp(1.0, like=x)
    return (raws(y) == [1] and flags(y) == ()), 'fxp_like(x, 1.0) flags %s ; Fxp(1.0, like=x) flags %s' % (flags(y), flags(w))
guarded('B7 fxp_like(x, representable) is flagged with the history of x', False, b7)


# ---------------------------------------------------------------- B8 (borderline): list of Fxp scalars whose array_op_method is 'raw'
def b8():
    a = Fxp(1.5, True, 8, 4, array_op_method='raw')
    x = Fxp([a, a], True, 16, 4)
    want = code(F(3, 2), True, 16, 4, 'trunc')
    return raws(x) == [want, want], '[Fxp(1.5), Fxp(1.5)] -> %s flags %s want %s' % (raws(x), flags(x), [want, want])
guarded("B8 list of Fxp scalars with array_op_method='raw' is stored as int(value)", False, b8)


# ---------------------------------------------------------------- B9 (borderline, other property): negative n_frac without n_word raises
def b9():
    x = Fxp(64, True, n_frac=-5)
    want = code(64, x.signed, x.n_word, x.n_frac, 'trunc')
    return raws(x)[0] == want, 'stored %d in %s' % (raws(x)[0], x.dtype)
guarded('B9 Fxp(64, signed=True, n_frac=-5) (size inference with negative n_frac)', False, b9)


bad_inside = [1 for inside, ok in results if inside and not ok]
print('fxpmath from', os.path.dirname(fxpmath.__file__), '- inside violations:', len(bad_inside),
      '- borderline violations:', len([1 for inside, ok in results if not inside and not ok]))
sys.exit(1 if bad_inside else 0)
