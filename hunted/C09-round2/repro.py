#!/usr/bin/env python
"""Reproducers for property C09 (division family). Exit code 1 if any violation reproduces."""
import os, sys, warnings
sys.path.insert(0, os.environ.get('FXP_REPO', '/repo'))
warnings.simplefilter('ignore')
from fractions import Fraction as F
from math import floor
import numpy as np
import fxpmath
from fxpmath import Fxp

violations = 0

def exact(o):
    """exact value(s) of an (unscaled) Fxp from its raw code(s)"""
    return [F(int(v)) * F(2) ** (-o.n_frac) for v in np.asarray(o.val).ravel()]

def report(title, got, expected):
    global violations
    violations += 1
    print('VIOLATION {}: got {} expected {}'.format(title, got, expected))

def run(title, thunk, expected_check, expected_text):
    """thunk() -> Fxp ; expected_check(list of exact values, Fxp) -> bool"""
    try:
        z = thunk()
    except Exception as e:
        report(title, '{}: {}'.format(type(e).__name__, e), expected_text)
        return
    vals = exact(z)
    if not expected_check(vals, z):
        report(title, '{} ({})'.format([str(v) for v in vals], z.dtype), expected_text)
    else:
        print('ok        {}'.format(title))

# ---------------------------------------------------------------------------------------------------------
# F1  floordiv, optimal sizing: the optimal word length is <= 0 when x.n_int + y.n_frac < 0  -> ValueError
# ---------------------------------------------------------------------------------------------------------
def f1a():
    x = Fxp(-0.25, True, 3, 4)       # fxp-s3/4  (n_frac > n_word, n_int = -2), value -0.25 exactly
    y = Fxp(1, True, 3, 0)           # fxp-s3/0
    return x // y
run('F1a floordiv optimal size has n_word<=0 (s3/4 // s3/0)', f1a, lambda v, z: v == [F(-1)], '-1 = floor(-0.25/1)')

def f1b():
    x = Fxp(-1.5, True, 4, 2)        # fxp-s4/2
    y = Fxp(8, False, 1, -3)         # fxp-u1/-3 (negative n_frac), value 8
    return x // y
run('F1b floordiv optimal size has n_word<=0 (s4/2 // u1/-3)', f1b, lambda v, z: v == [F(-1)], '-1 = floor(-1.5/8)')

def f1c():
    x = Fxp(-1.5, True, 4, 2, op_method='repr')
    y = Fxp(8, False, 1, -3, op_method='repr')
    return x // y
run('F1c same with op_method=repr', f1c, lambda v, z: v == [F(-1)], '-1 = floor(-1.5/8)')

# ---------------------------------------------------------------------------------------------------------
# F2  truediv (raw): x.val * 2**k computed in int64/uint64 wraps silently (no _raw_cast / scale_raw)
# ---------------------------------------------------------------------------------------------------------
def f2a():
    x = Fxp(100.0, True, 40, 30)     # default configuration
    return x / 2                      # constant -> Fxp(2, like=x), const_op_sizing='same' -> result fxp-s40/30
run('F2a default config: Fxp(100.0, s40/30) / 2', f2a, lambda v, z: v == [F(50)] and z.n_word <= 53, '50 (exactly representable in fxp-s40/30)')

def f2b():
    x = Fxp([100.0, -7.5, 300.25], True, 40, 30)
    return x / 2.0
run('F2b default config, array: Fxp([100,-7.5,300.25], s40/30) / 2.0', f2b,
    lambda v, z: v == [F(50), F(-15, 4), F(1201, 8)], '[50, -3.75, 150.125]')

def f2c():
    x = Fxp(2**31, True, 34, 0, op_sizing='same')
    y = Fxp(1.0, True, 34, 32)
    return x / y
run('F2c op_sizing=same: Fxp(2**31, s34/0) / Fxp(1.0, s34/32)', f2c, lambda v, z: v == [F(2**31)], '2147483648 (fits fxp-s34/0)')

def f2d():
    x = Fxp(1000.25, True, 40, 20, op_input_size='best')
    return x / 0.3                    # Fxp(0.3) is fxp-s55/54 ; result fxp-s40/20
def f2d_check(v, z):
    q = F(1000.25) / exact(Fxp(0.3))[0]
    return abs(v[0] - q) < F(1, 2**20)
run('F2d op_input_size=best: Fxp(1000.25, s40/20) / 0.3', f2d, f2d_check, '3334.1666.. within one LSB of fxp-s40/20')

def f2e():
    # mixed signedness: uint64 // int64 is evaluated in float64 -> quotient of ~2**52 off by more than one LSB
    x = Fxp(42, True, 7, 0)
    y = Fxp(13, False, 5, 0)
    out = Fxp(None, True, 53, 50)
    return fxpmath.truediv(x, y, out=out)
def f2e_check(v, z):
    return abs(v[0] - F(42, 13)) < F(1, 2**50)
run('F2e out=fxp-s53/50, mixed signedness 42/13 (float64 floor division)', f2e, f2e_check, 'error < 2**-50 (one LSB of out)')

# ---------------------------------------------------------------------------------------------------------
# F3  (borderline: scaled operands) a scaled divisor is used through its raw code, scale/bias ignored
# ---------------------------------------------------------------------------------------------------------
def f3(op):
    def thunk():
        x = Fxp(6.0, True, 8, 2)
        y = Fxp(3.0, True, 8, 2, scale=2, bias=1)      # y() == 3.0
        assert float(y()) == 3.0
        return {'/': x / y, '//': x // y, '%': x % y}[op]
    return thunk
run('F3a [borderline: scaled divisor] 6.0 / Fxp(3.0, scale=2, bias=1)', f3('/'), lambda v, z: v == [F(2)], '2')
run('F3b [borderline: scaled divisor] 6.0 // Fxp(3.0, scale=2, bias=1)', f3('//'), lambda v, z: v == [F(2)], '2')
def f3c():
    x = Fxp(7.0, True, 8, 2)
    y = Fxp(3.0, True, 8, 2, scale=2, bias=1)
    return x % y
run('F3c [borderline: scaled divisor] 7.0 % Fxp(3.0, scale=2, bias=1)', f3c, lambda v, z: v == [F(1)], '1')

# ---------------------------------------------------------------------------------------------------------
# F4  (borderline: operand word > 53) repr method of // disagrees with raw although the result word is <= 53
# ---------------------------------------------------------------------------------------------------------
def f4():
    x = Fxp(2**56 - 1, True, 57, 55, raw=True, op_method='repr')    # 2 - 2**-55
    y = Fxp(1, False, 55, 8, raw=True, op_method='repr')            # 2**-8
    return x // y
run('F4 [borderline: 57-bit operand] repr floordiv (2-2**-55)//2**-8, result fxp-s11/0', f4, lambda v, z: v == [F(511)], '511 (raw method gives 511)')

sys.exit(1 if violations else 0)
