#!/usr/bin/env python
"""
C18 hunt (round 3) - re-check of every finding with an exact (Python int / Fraction) oracle.
One line per finding, starting with VIOLATION or holds. Exit status 1 if a clearly-inside finding is violated.
"""
import os, sys, io, contextlib
sys.path.insert(0, os.environ.get('FXP_REPO', '/repo'))
import numpy as np
import fxpmath
from fxpmath import Fxp

NW = [64, 65, 66, 72, 96, 127, 128, 129, 200, 256]

def nfracs(n):
    return sorted({0, 1, n // 2, n - 1, n})

def to_signed(v, s, n):
    v %= 1 << n
    if s and v >= 1 << (n - 1):
        v -= 1 << n
    return v

def bounds(s, n):
    return (-(1 << (n - 1)), (1 << (n - 1)) - 1) if s else (0, (1 << n) - 1)

def codes_of(x):
    return [int(v) for v in np.asarray(x.val).flatten()]

results = []   # (inside?, violated?, text)

def report(tag, inside, n_bad, n_tot, example):
    violated = n_bad > 0
    line = '{} [{}] {}: {}/{} cases wrong{}'.format('VIOLATION' if violated else 'holds', 'inside' if inside else 'borderline',
                                                  tag, n_bad, n_tot, ('; e.g. ' + example) if violated else '')
    print(line)
    results.append((inside, violated))

# ----------------------------------------------------------------------------------------------------------------------
# F1 (inside): x << k, default shifting='expand', scalar code at / just above a power of two: the word is not expanded
#              enough (float log2), the exact product c * 2**k is saturated and the overflow flag raised.
#              Oracle: expand mode keeps the value, so the result code (same n_frac) is c << k, no flags.
# ----------------------------------------------------------------------------------------------------------------------
bad = tot = 0; ex = ''
for n in NW:
    for s in (True, False):
        for f in nfracs(n):
            top = n - 2 if s else n - 1
            for k in (top, top - 1, (54 + top) // 2, 54):
                for c in [1 << k, (1 << k) + 1] + ([-(1 << k) - 1] if s else []):
                    for sh in (1, n - k):
                        tot += 1
                        try:
                            y = Fxp(c, s, n, f, raw=True) << sh
                            ok = (y.n_frac == f and y.signed == s and codes_of(y) == [c << sh]
                                  and not y.status['overflow'] and not y.status['underflow'])
                            got = '{} code {} flags {}'.format(y.dtype, codes_of(y)[0], (y.status['overflow'], y.status['underflow']))
                        except Exception as e:
                            ok = False; got = type(e).__name__
                        if not ok:
                            bad += 1
                            if not ex:
                                ex = 'Fxp({}, signed={}, n_word={}, n_frac={}, raw=True) << {} -> {} (exact code {})'.format(
                                    '2**%d' % k if c == 1 << k else c, s, n, f, sh, got, '2**%d' % (k + sh) if c == 1 << k else c << sh)
report('F1 left shift (shifting=expand) of a wide scalar near a power of two saturates instead of expanding', True, bad, tot, ex)

# ----------------------------------------------------------------------------------------------------------------------
# F2 (inside): x << k, default shifting='expand', wide ARRAY operand: TypeError (np.log2 of an object array).
#              Oracle: element codes c << k (the word expands), as happens for words below 48 bits.
# ----------------------------------------------------------------------------------------------------------------------
bad = tot = 0; ex = ''
for n in NW:
    for s in (True, False):
        for f in nfracs(n):
            for arr in ([1, 2, 3], [[5, 0], [7, 1]], [1]):
                tot += 1
                flat = [int(v) for v in np.asarray(arr).flatten()]
                try:
                    y = Fxp(arr, s, n, f, raw=True) << 1
                    ok = codes_of(y) == [c << 1 for c in flat] and y.val.shape == np.shape(arr)
                    got = str(codes_of(y))
                except Exception as e:
                    ok = False; got = '{}: {}'.format(type(e).__name__, str(e)[:60])
                if not ok:
                    bad += 1
                    if not ex:
                        ex = 'Fxp({}, signed={}, n_word={}, n_frac={}, raw=True) << 1 -> {}'.format(arr, s, n, f, got)
# control: the same expression on a 16-bit word works
ctrl = codes_of(Fxp([1, 2, 3], True, 16, 0, raw=True) << 1) == [2, 4, 6]
report('F2 left shift (shifting=expand) of a wide array raises (16-bit control works: {})'.format(ctrl), True, bad, tot, ex)

# ----------------------------------------------------------------------------------------------------------------------
# F3 (inside, not width specific): x << k with shifting='trunc' / 'keep' and overflow='wrap': the result is built in a
#              fresh default-config object, so it saturates instead of wrapping (and loses overflow/shifting/rounding).
#              Oracle: (c << k) wrapped into the n_word-bit word (C03), result keeps overflow='wrap'.
# ----------------------------------------------------------------------------------------------------------------------
bad = tot = 0; ex = ''
for n in NW:
    for s in (True, False):
        for f in nfracs(n):
            lo, hi = bounds(s, n)
            for mode in ('trunc', 'keep'):
                for c, sh in ((hi, 1), (hi - 5, 3), (lo, 1), (1, n), (3, n - 1)):
                    tot += 1
                    x = Fxp(c, s, n, f, raw=True, overflow='wrap', shifting=mode)
                    y = x << sh
                    e = to_signed(c << sh, s, n)
                    if codes_of(y) != [e] or y.n_word != n or y.config.overflow != 'wrap':
                        bad += 1
                        if not ex:
                            ex = "Fxp({}, signed={}, n_word={}, n_frac={}, raw=True, overflow='wrap', shifting='{}') << {} -> code {} (wrapped code {}), result config.overflow={!r}".format(
                                c, s, n, f, mode, sh, codes_of(y)[0], e, y.config.overflow)
report("F3 left shift (shifting=trunc/keep) of an overflow='wrap' object saturates; config not inherited", True, bad, tot, ex)

# ----------------------------------------------------------------------------------------------------------------------
# B1 (borderline: NumPy-dispatch form): np.bitwise_and / or / xor / invert on wide integer-valued scalars: the exact NumPy
#              result is re-wrapped by Fxp(out) with best sizes capped at 64 bits and saturates silently.
# ----------------------------------------------------------------------------------------------------------------------
bad = tot = 0; ex = ''
for n in NW[1:]:
    for s in (True, False):
        a_c = (1 << (n - 2)) + 5; b_c = (1 << (n - 2)) + 3
        a = Fxp(a_c, s, n, 0); b = Fxp(b_c, s, n, 0)
        for name, fn, e in (('bitwise_and', lambda: np.bitwise_and(a, b), a_c & b_c), ('bitwise_or', lambda: np.bitwise_or(a, b), a_c | b_c),
                            ('invert', lambda: np.invert(a), to_signed(~a_c, s, n)), ('bitwise_and const', lambda: np.bitwise_and(a, b_c), a_c & b_c)):
            tot += 1
            try:
                y = fn()
                ok = isinstance(y, Fxp) and Fxp(y, s, n, 0).val.item() == e and codes_of(y) == [e]
                got = '{} code {}'.format(y.dtype, codes_of(y)[0]) if isinstance(y, Fxp) else repr(y)
            except Exception as ex_:
                ok = False; got = type(ex_).__name__
            if not ok:
                bad += 1
                if not ex:
                    ex = 'np.{}(Fxp(2**{}+5, {}, {}, 0), ...) -> {} (exact {})'.format(name, n - 2, s, n, got, e)
report('B1 NumPy-dispatch form of the bitwise operators on wide integers saturates at 64 bits', False, bad, tot, ex)

# ----------------------------------------------------------------------------------------------------------------------
# B2 (borderline: mixed list): a Python integer of 54..63 bits in a list next to a float: the list becomes float64.
# ----------------------------------------------------------------------------------------------------------------------
bad = tot = 0; ex = ''
for n in NW:
    for raw in (True, False):
        tot += 1
        c = 2**60 + 1
        x = Fxp([c, 2.0], True, n, 0, raw=raw)
        if codes_of(x) != [c, 2]:
            bad += 1
            if not ex:
                ex = 'Fxp([2**60+1, 2.0], True, {}, 0, raw={}) -> {} (exact [{}, 2])'.format(n, raw, codes_of(x), c)
report('B2 Python integer of 54..63 bits in a list with a float loses its low bits', False, bad, tot, ex)

# ----------------------------------------------------------------------------------------------------------------------
# B3 (borderline: dotted binary string with raw=True): bin(frac_dot=True) of a wide object does not read back as a code.
# ----------------------------------------------------------------------------------------------------------------------
bad = tot = 0; ex = ''
for n in NW:
    f = n // 2
    for c in (-1, int('5' * (n // 4), 16) >> 1):
        tot += 1
        x = Fxp(c, True, n, f, raw=True)
        st = x.bin(frac_dot=True, prefix='0b')
        try:
            y = Fxp(st, True, n, f, raw=True)
            ok = codes_of(y) == [c]; got = str(codes_of(y)[0])
        except Exception as e:
            ok = False; got = type(e).__name__
        if not ok:
            bad += 1
            if not ex:
                ex = "Fxp(x.bin(frac_dot=True, prefix='0b'), True, {}, {}, raw=True) -> code {} (x has code {})".format(n, f, got, c)
report('B3 dotted binary string in raw mode is read as a value and truncated', False, bad, tot, ex)

# ----------------------------------------------------------------------------------------------------------------------
# B4 (borderline: flags): results of & | ^ ~ are deep copies of the left operand and carry its stale overflow flag.
# ----------------------------------------------------------------------------------------------------------------------
bad = tot = 0; ex = ''
for n in NW:
    tot += 1
    x = Fxp(1 << (n - 1), True, n, 0, raw=True)      # saturates: overflow flag of x is (rightly) set
    y = x & 1
    if y.status['overflow']:
        bad += 1
        if not ex:
            ex = '(Fxp(2**{}, True, {}, 0, raw=True) & 1).status["overflow"] is True although the AND (code 1) did not overflow'.format(n - 1, n)
report('B4 bitwise results inherit the overflow / underflow flags of the left operand', False, bad, tot, ex)

# ----------------------------------------------------------------------------------------------------------------------
# What held (spot re-check of the core of the property): raw codes / integer values / bin / hex / flags / & | ^ ~
# ----------------------------------------------------------------------------------------------------------------------
import random
rng = random.Random(18)
bad = tot = 0
for n in NW:
    for f in nfracs(n):
        for s in (True, False):
            for ov in ('saturate', 'wrap'):
                lo, hi = bounds(s, n); m = 1 << n
                for c in [lo, lo - 1, hi, hi + 1, m, -m, 3 * m + 1, rng.getrandbits(4 * n), -rng.getrandbits(3 * n)]:
                    tot += 1
                    x = Fxp(c, s, n, f, overflow=ov, raw=True)
                    r = min(max(c, lo), hi) if ov == 'saturate' else to_signed(c, s, n)
                    u = r % m
                    if not (codes_of(x) == [r] and x.status['overflow'] == (c > hi) and x.status['underflow'] == (c < lo) and
                            x.status['extended_prec'] is True and x.bin() == format(u, '0%db' % n) and
                            x.hex() == '0x' + format(u, '0%dX' % ((n + 3) // 4)) and codes_of(~x) == [to_signed(~r, s, n)]):
                        bad += 1
report('core: raw codes stored / saturated / wrapped, flags, bin(), hex(), ~', True, bad, tot, '')

sys.exit(1 if any(inside and violated for inside, violated in results) else 0)
