#!/usr/bin/env python
"""Reproducers for property C15 (NumPy reductions / linear algebra on fixed-point arrays are exact).
fxpmath is imported from $FXP_REPO (default /repo). Exit code 1 if any violation reproduces."""
import os, sys, warnings
sys.path.insert(0, os.environ.get('FXP_REPO', '/repo'))
warnings.simplefilter('ignore')
import numpy as np
from fractions import Fraction as F
from fxpmath import Fxp

violations = 0

def exact(z):
    """exact element values (Fractions, nested list) of a real Fxp, read from its raw codes, scale and bias"""
    sc, bi = F(z.scale), F(z.bias)
    conv = lambda r: F(int(r)) * F(2) ** (-z.n_frac) * sc + bi
    return np.vectorize(conv, otypes=[object])(np.asarray(z.val)).tolist()

def exact_c(z):
    conv = lambda r: (F(int(r.real)) * F(2) ** (-z.n_frac), F(int(r.imag)) * F(2) ** (-z.n_frac))
    return np.vectorize(conv, otypes=[object])(np.asarray(z.val)).tolist()

def fr(v):
    return np.vectorize(lambda a: F(a), otypes=[object])(np.asarray(v, dtype=object)).tolist()

def case(title, func, expected, reader=exact):
    global violations
    try:
        z = func()
        got = reader(z) if isinstance(z, Fxp) else z
        extra = ' (%s, status %s)' % (z.dtype, {k: v for k, v in z.status.items() if v}) if isinstance(z, Fxp) else ''
    except Exception as e:
        got, extra = '%s: %s' % (type(e).__name__, e), ''
    if got != expected:
        violations += 1
        s = lambda v: str(v).replace('Fraction', 'F')
        print('VIOLATION %s: got %s%s expected %s' % (title, s(got), extra, s(expected)))
    else:
        print('ok        %s' % title)

# ---------------------------------------------------------------------------------------------------------------
# 1. one-sided clip
x1 = Fxp([-3.0, -1.5, 0.0, 2.5, 3.5], signed=True, n_word=8, n_frac=3)
case('1a np.clip(x, a_min, None) raises', lambda: np.clip(x1, -1.5, None), fr([-1.5, -1.5, 0, 2.5, 3.5]))
case('1b x.clip(a_max=...) raises', lambda: x1.clip(a_max=2.5), fr([-3, -1.5, 0, 2.5, 2.5]))
case('1c np.clip(x, min=, max=) (NumPy 2 keywords) raises', lambda: np.clip(x1, min=-1.5, max=2.5), fr([-1.5, -1.5, 0, 2.5, 2.5]))

# 2. clip with narrow NumPy integer bounds: the bound wraps when it is scaled to the raw domain
x2 = Fxp([-120.0, -50.0, 0.0, 50.0, 120.0], signed=True, n_word=12, n_frac=3)
case('2a np.clip with np.int8 scalar bounds', lambda: np.clip(x2, np.int8(-100), np.int8(100)), fr([-100, -50, 0, 50, 100]))
case('2b x.clip with int8 array bounds', lambda: x2.clip(np.array([-100] * 5, dtype=np.int8), np.array([100] * 5, dtype=np.int8)), fr([-100, -50, 0, 50, 100]))
x2c = Fxp([-7.5, -3.0, 0.0, 3.0, 7.5], signed=True, n_word=12, n_frac=8)
case('2c np.clip with np.int16 bounds beyond the format range', lambda: np.clip(x2c, np.int16(-200), np.int16(200)), fr([-7.5, -3, 0, 3, 7.5]))

# 3. clip with Fxp bounds
lo, hi = Fxp(-1.5, like=x1), Fxp(2.5, like=x1)
case('3a np.clip(x, Fxp, Fxp)', lambda: np.clip(x1, lo, hi), fr([-1.5, -1.5, 0, 2.5, 2.5]))
x3 = Fxp([-1.0, -0.5, 0.0, 0.5], signed=True, n_word=2, n_frac=1)
case('3b x.clip(Fxp, Fxp) (s2/1)', lambda: x3.clip(Fxp(-0.5, like=x3), Fxp(0.0, like=x3)), fr([-0.5, -0.5, 0, 0]))

# 4. cumprod into `out` with fewer fractional bits than size * n_frac (result exactly representable in `out`)
x4 = Fxp([2.0, 3.0, 1.5], signed=True, n_word=8, n_frac=3)
case('4a np.cumprod(x, out=z) raises', lambda: np.cumprod(x4, out=Fxp(None, True, 32, 4)), fr([2, 6, 9]))
case('4b x.cumprod(out=z) raises', lambda: x4.cumprod(out=Fxp(None, True, 32, 4)), fr([2, 6, 9]))

# 5. prod over a tuple of axes
x5 = Fxp([[-8, 7, -8], [7, -8, -8], [1, 2, 3]], signed=True, n_word=4, n_frac=0)
case('5 np.prod(x, axis=(0, 1)) raises', lambda: np.prod(x5, axis=(0, 1)), F(-8 * 7 * -8 * 7 * -8 * -8 * 1 * 2 * 3))

# 6. the `real` attribute of the objects returned by x.T / left by x.sort() is stale
x6 = Fxp([[3.0, 1.0, 2.0], [0.5, -1.0, 7.0]], signed=True, n_word=8, n_frac=2)
case('6a x.T.real', lambda: np.asarray(x6.T.real).tolist(), [[3.0, 0.5], [1.0, -1.0], [2.0, 7.0]])
def _sorted_real():
    y = x6.deepcopy(); y.sort(); return np.asarray(y.real).tolist()
case('6b x.sort(); x.real', _sorted_real, [[1.0, 2.0, 3.0], [-1.0, 0.5, 7.0]])

# ---------------------------------------------------------------------------------------------------------------
# borderline (arguably outside the stated quantifier)
# 7. scaled objects (scale / bias): the result forgets the scaling
x7 = Fxp([100.0, 200.0, 300.0], signed=True, n_word=8, n_frac=2, scale=10)
case('7a BORDERLINE scaled: np.max', lambda: np.max(x7), F(300))
case('7b BORDERLINE scaled: np.transpose', lambda: np.transpose(x7), fr([100, 200, 300]))
case('7c BORDERLINE scaled: x.sum()', lambda: x7.sum(), F(600))
case('7d BORDERLINE scaled: np.sort', lambda: np.sort(x7), fr([100, 200, 300]))

# 8. complex elements at the extremes overflow the optimal size of prod / cumprod / dot
x8 = Fxp([-8 - 8j, -8 - 8j], signed=True, n_word=4, n_frac=0)
case('8a BORDERLINE complex: np.prod', lambda: np.prod(x8), (F(0), F(128)), exact_c)
case('8b BORDERLINE complex: np.dot', lambda: np.dot(x8, x8), (F(0), F(256)), exact_c)

# 9. op_sizing='fit' (method route, raw method)
x9 = Fxp([0.5, 0.5, 0.5], signed=True, n_word=2, n_frac=1, op_sizing='fit')
case("9a BORDERLINE op_sizing='fit': x.prod()", lambda: x9.prod(), F(1, 8))
case("9b BORDERLINE op_sizing='fit': x.dot(x)", lambda: x9.dot(x9), F(3, 4))
case("9c BORDERLINE op_sizing='fit': x.cumprod()", lambda: x9.cumprod(), fr([F(1, 2), F(1, 4), F(1, 8)]))
x9d = Fxp([-32, 28], signed=True, n_word=4, n_frac=-2, op_sizing='fit')
case("9d BORDERLINE op_sizing='fit', n_frac<0: x.sum()", lambda: x9d.sum(), F(-4))

# 10. array_op_method='raw': np.matmul returns the raw product as the value
x10 = Fxp([0.5, 0.5], signed=True, n_word=4, n_frac=2, array_op_method='raw')
case("10 BORDERLINE array_op_method='raw': np.matmul", lambda: np.matmul(x10, x10), F(1, 2))

# 11. trace of an empty diagonal
case('11 BORDERLINE np.trace(x, offset=3) (empty diagonal)', lambda: np.trace(x5, offset=3), F(0))

sys.exit(1 if violations else 0)
