#!/usr/bin/env python
"""C12 reproducers. fxpmath is imported from $FXP_REPO (default /tmp/wth-C12)."""
import os, sys, warnings
sys.path.insert(0, os.environ.get('FXP_REPO', '/tmp/wth-C12'))
warnings.simplefilter('ignore')
import numpy as np
from fxpmath import Fxp, fxp_sum

violations = 0
def report(title, got, expected):
    global violations
    violations += 1
    print('VIOLATION %s: got %s expected %s' % (title, got, expected))

def fmt(o):
    return (o.signed, o.n_word, o.n_frac, o.vdtype == complex)

# ---------------------------------------------------------------------------
# F1  fxp_sum(x, dtype=x.dtype) (utils.get_sizes_from_dtype) rejects dtype strings
#     that Fxp itself renders: negative n_frac, '-complex' suffix, Q notation, upper case
# ---------------------------------------------------------------------------
cases = [
    ('negative n_frac',  lambda: Fxp([4, 8, 12], dtype='fxp-s16/-2'), None),
    ('complex suffix',   lambda: Fxp([1 + 1j, 2], dtype='fxp-s16/2-complex'), None),
    ('Q notation',       lambda: Fxp([1, 2, 3], dtype='fxp-s16/4', dtype_notation='Q'), None),
    ('upper case',       lambda: Fxp([1, 2, 3], dtype='fxp-s16/4'), str.upper),
]
for name, mk, tr in cases:
    x = mk()
    d = x.dtype if tr is None else tr(x.dtype)
    try:
        y = fxp_sum(x, dtype=d)
        if (y.signed, y.n_word, y.n_frac) != (x.signed, x.n_word, x.n_frac):
            report('F1 fxp_sum(dtype=x.dtype) %s [%s]' % (name, d), (y.signed, y.n_word, y.n_frac), (x.signed, x.n_word, x.n_frac))
    except Exception as e:
        report('F1 fxp_sum(dtype=x.dtype) %s [%s]' % (name, d), '%s(%s)' % (type(e).__name__, e),
               'result in format %s' % ((x.signed, x.n_word, x.n_frac),))

# ---------------------------------------------------------------------------
# F2  the dtype attribute is rendered in set_val BEFORE vdtype is updated: it is stale after any
#     write that changes complex-ness; constructing with a complex dtype and a real value gives an
#     object whose dtype says '-complex' while the object is real (get_dtype() disagrees with dtype)
# ---------------------------------------------------------------------------
x = Fxp(0j, signed=True, n_word=16, n_frac=8)           # complex format
y = Fxp(0.5, dtype=x.dtype)
d_attr = y.dtype; d_get = y.get_dtype()
if d_attr != d_get:
    report('F2a Fxp(0.5, dtype="fxp-s16/8-complex"): dtype attribute vs get_dtype()', (d_attr, d_get, 'vdtype=%s' % y.vdtype), 'equal strings')
if fmt(y) != fmt(x):
    report('F2b Fxp(0.5, dtype=x.dtype) does not reproduce complex format of x', fmt(y), fmt(x))

y = Fxp(1 + 2j, signed=True, n_word=16, n_frac=8); y(0.5)   # complex object overwritten with a real value
if y.dtype != y.get_dtype('fxp'):
    d = Fxp(1 + 2j, signed=True, n_word=16, n_frac=8); d(0.5)
    report('F2c complex Fxp called with real value: stale dtype', (d.dtype, 'vdtype=%s' % d.vdtype), 'fxp-s16/8 (what get_dtype() returns)')

y = Fxp([0.5, 1.0], signed=True, n_word=16, n_frac=8); y.set_val(3, raw=True, vdtype=complex)
d_attr = y.dtype
if d_attr != y.get_dtype('fxp'):
    report('F2d real Fxp raw-written with vdtype=complex: stale dtype', (d_attr, 'vdtype=%s' % y.vdtype), y.get_dtype('fxp'))

# ---------------------------------------------------------------------------
# F3  resize(dtype=x.dtype) / Fxp(like=..., dtype=x.dtype) raise OverflowError for
#     n_word in 55..63 with n_frac >= 63 (signed; n_frac >= 64 unsigned) when the receiving
#     object has an integer vdtype; the object is left half-updated (dtype string != sizes)
# ---------------------------------------------------------------------------
x = Fxp(0.0, signed=True, n_word=60, n_frac=63)          # inside quantifier: n_frac <= n_word+8
z = Fxp(3, signed=True, n_word=8, n_frac=0)
try:
    z.resize(dtype=x.dtype)
    if fmt(z) != fmt(x):
        report('F3a resize(dtype="fxp-s60/63") on integer-valued Fxp', fmt(z), fmt(x))
except Exception as e:
    report('F3a resize(dtype="fxp-s60/63") on integer-valued Fxp', '%s(%s); afterwards dtype=%s but sizes=%s' %
           (type(e).__name__, e, z.dtype, (z.signed, z.n_word, z.n_frac)), 'format %s' % (fmt(x),))
try:
    z = Fxp(like=Fxp(3, signed=True, n_word=8, n_frac=0), dtype=x.dtype)
    if fmt(z) != fmt(x):
        report('F3b Fxp(like=int_fxp, dtype="fxp-s60/63")', fmt(z), fmt(x))
except Exception as e:
    report('F3b Fxp(like=int_fxp, dtype="fxp-s60/63")', '%s(%s)' % (type(e).__name__, e), 'format %s' % (fmt(x),))

# ---------------------------------------------------------------------------
# Borderline (reported separately, do not count towards the exit code)
# ---------------------------------------------------------------------------
x = Fxp(1 + 0.5j, signed=True, n_word=16, n_frac=8, dtype_notation='Q')
y = Fxp(dtype=x.dtype)
if fmt(y) != fmt(x):
    print('BORDERLINE B1 Q notation has no complex marker: x.dtype=%s, Fxp(dtype=x.dtype) -> %s, x is %s' % (x.dtype, fmt(y), fmt(x)))
x = Fxp(0.5, signed=True, n_word=12, n_frac=4)
z = Fxp(1 + 1j, signed=True, n_word=16, n_frac=8); z.resize(dtype=x.dtype)
if fmt(z) != fmt(x):
    print('BORDERLINE B2 resize(dtype=<real dtype>) on a complex object keeps it complex: %s vs %s' % (fmt(z), fmt(x)))
x = Fxp(0.5, signed=True, n_word=12, n_frac=4)
if x.get_dtype('q') != 'Q8.4':
    print('BORDERLINE B3 get_dtype("q") silently renders fxp spelling: %s' % x.get_dtype('q'))

sys.exit(1 if violations else 0)
