#!/usr/bin/env python
"""Reproducers for the C03 hunt (wrap = exact two's-complement modular arithmetic).
fxpmath is imported from $FXP_REPO (default /repo). Exit code 1 if any violation reproduces."""
import os, sys, math, warnings
sys.path.insert(0, os.environ.get('FXP_REPO', '/repo'))
warnings.simplefilter('ignore')
from fractions import Fraction as F
import numpy as np
import fxpmath
from fxpmath import Fxp

def rnd(q, mode):
    if mode == 'around': return round(q)            # ties to even, as np.around
    if mode == 'floor':  return math.floor(q)
    if mode == 'ceil':   return math.ceil(q)
    return math.trunc(q)                             # 'trunc' / 'fix'

def reg(v, z):
    """code an n_word-bit wrap register with the format / rounding of `z` must hold for the exact rational value v"""
    r = rnd(F(v) * F(2) ** z.n_frac, z.config.rounding)
    m = 1 << z.n_word
    r %= m
    if z.signed and r >= m >> 1: r -= m
    return r

def value(x):
    """exact rational value(s) held by the Fxp x (from its stored codes)"""
    return [F(int(c)) / F(2) ** x.n_frac for c in np.asarray(x.val).flatten()]

def codes(z):
    return [int(c) for c in np.asarray(z.val).flatten()]

n_viol = 0
def check(title, z, exact):
    global n_viol
    assert z.config.overflow == 'wrap', title
    exp = [reg(v, z) for v in exact]
    got = codes(z)
    if got != exp:
        n_viol += 1
        print('VIOLATION %s: got %s (%s) expected %s' % (title, got, z.dtype, exp))
    else:
        print('ok        %s: %s' % (title, got))

def W(signed, n_word, n_frac, **kw):
    return Fxp(None, signed, n_word, n_frac, overflow='wrap', **kw)

# ---------------------------------------------------------------- F1  sum / cumsum into fewer fraction bits
x = Fxp([2**51 - 0.5, 2**51 - 0.5, 2.5], False, 52, 1, overflow='wrap')      # codes 2**52-1, 2**52-1, 5
s = sum(value(x))                                                              # 2**52 + 1.5
check('F1a sum() of u52/1 into u52/0 wrap register', fxpmath.sum(x, out=W(False, 52, 0)), [s])
check('F1b np.sum(x, out=...)', np.sum(x, out=W(False, 52, 0)), [s])
v = value(x)
check('F1c cumsum() into u52/0 wrap register', fxpmath.cumsum(x, out=W(False, 52, 0)), [v[0], v[0] + v[1], s])
#   wide variant: Python-integer values in a 80-bit word, fewer fraction bits in the register
xw = Fxp([2**70 + 1, 1], True, 90, 10, overflow='wrap')
check('F1d sum() of s90/10 integers into s90/0 wrap register', fxpmath.sum(xw, out=W(True, 90, 0)), [sum(value(xw))])
check('F1e max() of s90/10 integers into s90/0 wrap register', fxpmath.fxp_max(xw, out=W(True, 90, 0)), [max(value(xw))])

# ---------------------------------------------------------------- F2  dot
x = W(True, 32, 16, op_sizing='same'); x.set_val([2**30 - 1, 0], raw=True)   # 16383.99998474, 0
y = W(True, 32, 16);                   y.set_val([2**30 + 1, 0], raw=True)   # 16384.00001526, 0
d = sum(a * b for a, b in zip(value(x), value(y)))
check('F2a dot() of s32/16 vectors into s32/16 wrap register (out=)', fxpmath.dot(x, y, out=W(True, 32, 16)), [d])
check('F2b x.dot(y), op_sizing=same (s32/16, wrap)', x.dot(y), [d])
x = Fxp([-32768.0, -32768.0], True, 32, 16, overflow='wrap')
d = sum(a * a for a in value(x))                                               # +2**31
check('F2c x.dot(x), default sizing (s65/32, wrap): int64 overflow in np.dot', x.dot(x), [d])

# ---------------------------------------------------------------- F3  truediv (exact quotients: no rounding involved)
x = Fxp(200.0, True, 32, 16, overflow='wrap', op_sizing='same'); y = Fxp(2.0, True, 52, 40)
check('F3a 200.0 / 2.0, op_sizing=same (s32/16, wrap)', x / y, [F(100)])
check('F3b truediv(200.0, 2.0, out=s32/16 wrap)', fxpmath.truediv(x, y, out=W(True, 32, 16)), [F(100)])
x = Fxp(1000.0, True, 40, 20, overflow='wrap'); y = Fxp(4.0, True, 40, 20)
check('F3c 1000.0 / 4.0, default sizing (s80/39, wrap)', x / y, [F(250)])

# ---------------------------------------------------------------- F4  out_like: op_method='raw' silently computed in float64
x = Fxp(2**32 + 2**-19, False, 52, 19, overflow='wrap'); y = Fxp(3 * 2**32, True, 35, 0)
s = value(x)[0] + value(y)[0]                                                  # 2**34 + 2**-19
check('F4a add(x, y, out=s32/20 wrap)   [reference, exact]', fxpmath.add(x, y, out=W(True, 32, 20)), [s])
check('F4b add(x, y, out_like=s32/20 wrap)', fxpmath.add(x, y, out_like=W(True, 32, 20)), [s])
x.config.op_out_like = W(True, 32, 20)
check('F4c x + y with x.config.op_out_like=s32/20 wrap', x + y, [s])
x = Fxp(2**20 + 2**-10, False, 32, 10, overflow='wrap'); x.config.op_out_like = W(False, 32, 20)
check('F4d x * x with op_out_like=u32/20 wrap', x * x, [value(x)[0] ** 2])

# ---------------------------------------------------------------- F5  prod: int64 overflow of np.prod
x = Fxp([1.5, 2.5, 3.5, 4.5], False, 40, 30, overflow='wrap')
check('F5a prod([1.5,2.5,3.5,4.5]) into u16/4 wrap register', fxpmath.prod(x, out=W(False, 16, 4)), [F(945, 16)])
x = Fxp([0.5] * 4, True, 18, 17, overflow='wrap')
check('F5b prod([0.5]*4) (s18/17) into s72/68 wrap register', fxpmath.prod(x, out=W(True, 72, 68)), [F(1, 16)])

# ---------------------------------------------------------------- F6  one-variable functions into a wide register with more fraction bits
x = Fxp([3, 5], True, 16, 0, overflow='wrap')
check('F6a sum([3,5]) into s80/62 wrap register', fxpmath.sum(x, out=W(True, 80, 62)), [F(8)])
check('F6b max([3,5]) into s80/62 wrap register', fxpmath.fxp_max(x, out=W(True, 80, 62)), [F(5)])
check('F6c sort([3,5]) into s80/62 wrap register', fxpmath.sort(x, out=W(True, 80, 62)), [F(3), F(5)])

# ---------------------------------------------------------------- F7  op_sizing='fit' capped at 64 bits: raw value scaled for another n_frac
x = Fxp(2**33 - 1, True, 64, 30, overflow='wrap', op_sizing='fit'); y = Fxp(2**33 - 1, True, 64, 30)
check('F7a (2**33-1) + (2**33-1), s64/30 operands, op_sizing=fit', x + y, [F(2**34 - 2)])
x = Fxp(2**40, True, 52, 8, overflow='wrap', op_sizing='fit'); y = Fxp(2**-50, True, 52, 60)
check('F7b 2**40 + 2**-50, op_sizing=fit', x + y, [F(2**40) + F(1, 2**50)])

# ---------------------------------------------------------------- F8  mod of wide integers: operand with more fraction bits rescaled to a float
x = Fxp(2**70 + 5, False, 80, 0, overflow='wrap', op_sizing='same'); y = Fxp(7, False, 8, 1)
check('F8  (2**70+5) % 7, u80/0 % u8/1, op_sizing=same (u80/0, wrap)', x % y, [F((2**70 + 5) % 7)])

# ================================================================ borderline (arguably outside the quantifier)
print('--- borderline ---')
# B1  unsigned 54..63-bit source (uint64 raw codes, float vdtype) copied into another Fxp through float64
a = Fxp(2**55 + 1, False, 60, 4)
check('B1a Fxp(a) of a u60/4 object into u16/4 wrap', Fxp(a, False, 16, 4, overflow='wrap'), value(a))
z = W(False, 16, 4); z(a)
check('B1b z(a)', z, value(a))
z = Fxp([0], False, 16, 4, overflow='wrap'); z[0] = a
check('B1c z[0] = a', z, value(a))
# B2  signed x unsigned product (float64 intermediate), |raw result| >= 2**63
x = Fxp(-(2**25 - 1), True, 26, 0, overflow='wrap'); y = Fxp(2**27 - 1, False, 27, 0)
check('B2  mul(s26/0, u27/0, out=s32/12 wrap)', fxpmath.mul(x, y, out=W(True, 32, 12)), [value(x)[0] * value(y)[0]])
# B3  object array whose first element is an int: the floats are truncated before scaling
check('B3  Fxp(np.array([3, 0.75], dtype=object), s16/4, wrap)', Fxp(np.array([3, 0.75], dtype=object), True, 16, 4, overflow='wrap'), [F(3), F(3, 4)])

sys.exit(1 if n_viol else 0)
