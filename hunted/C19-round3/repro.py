#!/usr/bin/env python
"""
C19 hunt (round 3) - re-check of the findings.

No finding is clearly inside the quantifier of C19; the BORDERLINE findings B1..B4 are re-checked here with exact
(Python int) oracles, together with a compact version of the in-quantifier sweeps that held.

B1  out_like= / config.op_out_like: functions._function_over_two_vars() sets n_frac = None for out_like, and the dispatch
    condition "... or n_frac is None" then takes the value branch repr_func(x.get_val(), y.get_val()) although
    method == 'raw': float64 arithmetic, 53-bit rounding, no status flag. Borderline: out_like replaces the optimal sizing
    (the property says "with optimal sizing"), even when the format it gives is the optimal one.
B2  op_method='repr' + integer operand built from a *list* holding an int beyond int64: objects._format_inupt_val() gives it
    vdtype = dtype('O'); astype() has no branch for it and falls to "raw_val / conv_factor" (float). Scalars and ndarray
    inputs (vdtype int) are exact. Borderline: the value method is a configuration the property does not name.
B3  a bare Python-int operand needing more than config.n_word_max = 64 bits is saturated by Fxp(c) before the operation
    (inaccuracy flag propagated). Borderline: the operand is not a 2..70-bit fixed-point word; documented limit.
B4  x << n with shifting='expand' (default): objects.__lshift__ sizes with np.log2(np.abs(val) + 0.5) in float64; the +0.5
    is absorbed from 2**52 on, a code equal to 2**k gets k bits instead of k + 1 and the shifted value saturates (flagged).
    Borderline / other operation: a shift is not add, subtract or multiply.

Prints one line per finding / sweep starting with "VIOLATION" or "holds".
Exit status: 1 if a clearly-inside finding is violated (there is none, so only if one of the in-quantifier sweeps fails), else 0.
"""
import os, sys, random, warnings
sys.path.insert(0, os.environ.get('FXP_REPO', '/repo'))
import numpy as np
warnings.simplefilter('ignore')
import fxpmath
from fxpmath import Fxp

inside_violated = False

def codes_of(z):
    return [int(v) for v in np.asarray(z.val).astype(object).flatten().tolist()]

def report(tag, inside, ok, text):
    global inside_violated
    print('%s %s [%s] %s' % ('holds' if ok else 'VIOLATION', tag, 'INSIDE' if inside else 'BORDERLINE', text))
    if inside and not ok:
        inside_violated = True

# ---------------------------------------------------------------------------------------------------------------
# B1 (borderline): out_like= / config.op_out_like computes by float value, also with method='raw'
# ---------------------------------------------------------------------------------------------------------------
cx, cy = 2**60 + 1, 2**60 + 3
x = Fxp(cx, True, 62, 10, raw=True); y = Fxp(cy, True, 62, 10, raw=True)
ref = x + y                                             # optimal sizing: fxp-s63/10, exact
z = fxpmath.add(x, y, out_like=ref)                     # same format asked for through out_like
report('B1a', False, codes_of(z) == [cx + cy] , 'add(x, y, out_like=<optimal format>) raw %s, exact %d, inaccuracy flag %s'
       % (codes_of(z), cx + cy, z.status['inaccuracy']))
z = fxpmath.sub(x, y, out_like=x - y)
report('B1b', False, codes_of(z) == [cx - cy], 'sub(x, y, out_like=<optimal format>) raw %s, exact %d' % (codes_of(z), cx - cy))
z = fxpmath.mul(x, y, out_like=x * y)
report('B1c', False, codes_of(z) == [cx * cy], 'mul(x, y, out_like=<optimal format>) raw %s, exact %d' % (codes_of(z), cx * cy))
x.config.op_out_like = Fxp(None, True, 70, 10)
z = x + y
report('B1d', False, codes_of(z) == [cx + cy], 'x + y with x.config.op_out_like = fxp-s70/10: raw %s, exact %d' % (codes_of(z), cx + cy))
xw = Fxp(2**68 + 1, True, 70, 0, raw=True); yw = Fxp(1, True, 70, 0, raw=True)
z = fxpmath.add(xw, yw, out_like=xw + yw)
report('B1e', False, codes_of(z) == [2**68 + 2], 'wide (70-bit) operands, add(.., out_like=): raw %s, exact %d' % (codes_of(z), 2**68 + 2))

# ---------------------------------------------------------------------------------------------------------------
# B2 (borderline): op_method='repr', integer operands given as a *list* with an element beyond int64 (vdtype = dtype('O'))
# ---------------------------------------------------------------------------------------------------------------
x = Fxp([2**64 + 1, 1], False, 66, 0, op_method='repr'); y = Fxp([1, 1], False, 8, 0)
z = x + y
report('B2a', False, codes_of(z) == [2**64 + 2, 2], "op_method='repr', x = Fxp([2**64+1, 1], u66/0): (x + y) raw %s, exact %s; x.vdtype = %r"
       % (codes_of(z), [2**64 + 2, 2], x.vdtype))
xs = Fxp(2**64 + 1, False, 66, 0, op_method='repr'); ys = Fxp(1, False, 8, 0)
report('B2b', False, codes_of(xs + ys) == [2**64 + 2], "same with a scalar operand (vdtype int): raw %s (exact)" % codes_of(xs + ys))

# ---------------------------------------------------------------------------------------------------------------
# B3 (borderline): a constant operand that needs more than config.n_word_max = 64 bits is saturated before the sum
# ---------------------------------------------------------------------------------------------------------------
x = Fxp(1, True, 8, 0, raw=True)
z = fxpmath.add(x, 2**64 + 3)
report('B3', False, codes_of(z) == [2**64 + 4], 'add(x, 2**64+3) (function form, optimal sizing): raw %s, exact %d, inaccuracy flag %s'
       % (codes_of(z), 2**64 + 4, z.status['inaccuracy']))

# ---------------------------------------------------------------------------------------------------------------
# B4 (borderline, other operation): x << n with shifting='expand' under-sizes the result by one bit from 2**52 on
# ---------------------------------------------------------------------------------------------------------------
x = Fxp(2**60, False, 61, 0, raw=True)
z = x << 1
report('B4', False, codes_of(z) == [2**61], "Fxp(2**60, u61/0) << 1 with shifting='expand': raw %s in %s, exact %d (needs u62/0), overflow flag %s"
       % (codes_of(z), z.dtype, 2**61, z.status['overflow']))

# ---------------------------------------------------------------------------------------------------------------
# In-quantifier sweeps (compact versions of the ones that held)
# ---------------------------------------------------------------------------------------------------------------
def rng_fmt(r):
    nw = r.choice([2, 3, 8, 26, 27, 31, 32, 33, 52, 53, 54, 61, 62, 63, 64, 65, 66, 70] + list(range(2, 71)))
    return r.random() < 0.5, nw, r.choice([0, nw, nw // 2, r.randint(0, nw)])

def codes(r, s, nw):
    lo, hi = (-(1 << (nw-1)), (1 << (nw-1)) - 1) if s else (0, (1 << nw) - 1)
    c = [lo, hi, lo+1, hi-1, 0, 1, r.randint(lo, hi), r.randint(lo, hi)]
    for k in (53, 62, 63, 64):
        for d in (-1, 0, 1):
            for sg in (1, -1):
                v = sg*((1 << k) + d)
                if lo <= v <= hi: c.append(v)
    return c

def arith_sweep(n, seed):
    r = random.Random(seed); bad = []
    for _ in range(n):
        sx, wx, fx = rng_fmt(r); sy, wy, fy = rng_fmt(r)
        k = r.choice([0, 1, 3])
        cx = [r.choice(codes(r, sx, wx)) for _ in range(max(k, 1))]; cy = [r.choice(codes(r, sy, wy)) for _ in range(max(k, 1))]
        x = Fxp(cx if k else cx[0], sx, wx, fx, raw=True); y = Fxp(cy if k else cy[0], sy, wy, fy, raw=True)
        form = r.choice(['op', 'func', 'np', 'iop'])
        nf = max(fx, fy)
        for name in ('add', 'sub', 'mul'):
            if form == 'op': z = x + y if name == 'add' else x - y if name == 'sub' else x * y
            elif form == 'func': z = getattr(fxpmath, name)(x, y)
            elif form == 'np': z = {'add': np.add, 'sub': np.subtract, 'mul': np.multiply}[name](x, y)
            else:
                z = x.deepcopy()
                if name == 'add': z += y
                elif name == 'sub': z -= y
                else: z *= y
            exp = []
            for a, b in zip(cx, cy):
                if name == 'mul': e = a * b
                else:
                    a2, b2 = a << (nf - fx), b << (nf - fy); e = a2 + b2 if name == 'add' else a2 - b2
                    if name == 'sub' and not (sx or sy): e = max(e, 0)      # an unsigned result saturates a negative difference
                exp.append(e)
            if codes_of(z) != exp or z.n_frac != (fx + fy if name == 'mul' else nf):
                bad.append((name, form, (sx, wx, fx, cx), (sy, wy, fy, cy), codes_of(z), exp))
    return bad

def store_sweep(n, seed):
    r = random.Random(seed); bad = []
    vs = [sg*((1 << k) + d) for k in (0, 1, 31, 32, 52, 53, 62, 63, 64, 65, 127, 128, 999, 1000) for d in (-1, 0, 1) for sg in (1, -1)]
    for _ in range(n):
        nw = r.randint(1, 52); nf = r.randint(0, nw + 3); s = r.random() < 0.5
        ovf = r.choice(['saturate', 'wrap']); rnd = r.choice(['trunc', 'around', 'floor', 'ceil', 'fix'])
        v = r.choice(vs + [r.choice([1, -1]) * r.getrandbits(r.randint(1, 1000))])
        k = v << nf
        lo, hi = (-(1 << (nw-1)), (1 << (nw-1)) - 1) if s else (0, (1 << nw) - 1)
        if ovf == 'saturate': exp = min(max(k, lo), hi)
        else:
            exp = k % (1 << nw)
            if s and exp >= (1 << (nw-1)): exp -= 1 << nw
        route = r.choice(['ctor', 'call', 'set_val', 'index'])
        kw = dict(overflow=ovf, rounding=rnd)
        if route == 'ctor': got = Fxp(v, s, nw, nf, **kw).val
        elif route == 'call': x = Fxp(0.3, s, nw, nf, **kw); x(v); got = x.val
        elif route == 'set_val': x = Fxp(None, s, nw, nf, **kw); x.set_val(v); got = x.val
        else: x = Fxp([0.5, 1, 2], s, nw, nf, **kw); x[1] = v; got = x.val[1]
        if int(got) != exp: bad.append((route, (s, nw, nf), ovf, rnd, v, int(got), exp))
    return bad

bad = arith_sweep(1500, 1)
report('S1', True, not bad, 'add / sub / mul with optimal sizing, words 2..70, signedness mix, scalars and arrays, operator / function / '
       'NumPy-dispatch / in-place forms: %d mismatches in 1500 x 3 cases%s' % (len(bad), '' if not bad else ' e.g. %r' % (bad[0],)))
bad = store_sweep(3000, 2)
report('S2', True, not bad, 'Python integers up to 2**1000 into formats of 1..52 bits, n_frac <= n_word+3, constructor / call / set_val / '
       'indexed assignment, saturate and wrap: %d mismatches in 3000 cases%s' % (len(bad), '' if not bad else ' e.g. %r' % (bad[0],)))

sys.exit(1 if inside_violated else 0)
