#!/usr/bin/env python
"""
Re-checks every finding of findings.md (property C06: size inference) with exact oracles (Python ints / Fractions).
One line per finding, starting with "VIOLATION" or "holds".  Exit code 1 if a clearly-inside finding is violated.
"""
import os, sys, math, warnings
sys.path.insert(0, os.environ.get('FXP_REPO', '/repo'))
warnings.filterwarnings('ignore')
import numpy as np
from fractions import Fraction as F
from decimal import Decimal, localcontext
import fxpmath
from fxpmath import Fxp

# ----------------------------------------------------------------------------------------------------------------------
# exact oracle
def min_frac(v):
    v = F(v); f = 0
    while (v * 2**f).denominator != 1: f += 1
    return f

def min_int(vals, signed, n_frac):
    """smallest n_int >= 0 such that every value lies in the range of the format (sign, n_int, n_frac)"""
    lsb = F(2)**(-n_frac)
    n = 0
    while True:
        hi = F(2)**n - lsb
        lo = -F(2)**n if signed else F(0)
        if all(lo <= F(v) <= hi for v in vals): return n
        n += 1

ROUND = {'trunc': math.trunc, 'fix': math.trunc, 'floor': math.floor, 'ceil': math.ceil, 'around': round}

def expect_nfrac_only(vals, signed, n_frac, rounding='trunc'):
    """only n_frac given: the values as quantized by the configured rounding, in the minimal word that holds them"""
    q = [F(ROUND[rounding](F(v) * F(2)**n_frac)) / F(2)**n_frac for v in vals]
    return min_int(q, signed, n_frac) + n_frac + int(signed), n_frac, q

def stored(x):
    raws = [int(r) for r in np.asarray(x.val).flatten().tolist()]
    return [F(r) * F(2)**(-x.n_frac) for r in raws]

def flags(x):
    return sorted(k for k in ('overflow', 'underflow', 'inaccuracy') if x.status[k])

results = []   # (inside?, violated?)
def report(name, inside, violated, detail):
    results.append((inside, violated))
    print('%s %s [%s] %s' % ('VIOLATION' if violated else 'holds', name, 'inside' if inside else 'borderline', detail))

def attempt(f):
    try:
        return f(), None
    except Exception as e:      # noqa
        return None, '%s: %s' % (type(e).__name__, e)

print('# fxpmath from', os.path.dirname(fxpmath.__file__))

# ----------------------------------------------------------------------------------------------------------------------
# F1  only n_frac given + a rounding mode that can round away from zero: the word is one bit short
def f1(name, make, vals, signed, n_frac, rounding):
    w, nf, q = expect_nfrac_only(vals, signed, n_frac, rounding)
    x, err = attempt(make)
    if err:
        report(name, True, True, 'raised ' + err); return
    bad = (x.n_word, x.n_frac) != (w, nf) or stored(x) != q or x.status['overflow'] or x.status['underflow']
    report(name, True, bad, 'got %s stored %s flags %s; expected fxp-%s%d/%d stored %s, no overflow/underflow' %
           (x.dtype, [float(v) for v in stored(x)], flags(x), 's' if signed else 'u', w, nf, [float(v) for v in q]))

f1('F1a Fxp(1.75, n_frac=1, rounding="around")', lambda: Fxp(1.75, n_frac=1, rounding='around'), [F(7, 4)], True, 1, 'around')
f1('F1b Fxp(-1.25, n_frac=1, rounding="floor")', lambda: Fxp(-1.25, n_frac=1, rounding='floor'), [F(-5, 4)], True, 1, 'floor')
f1('F1c Fxp(0.75, signed=False, n_frac=1, rounding="ceil")', lambda: Fxp(0.75, signed=False, n_frac=1, rounding='ceil'), [F(3, 4)], False, 1, 'ceil')
f1('F1d Fxp([0.25, 0.75], n_frac=1, rounding="around")', lambda: Fxp([0.25, 0.75], n_frac=1, rounding='around'), [F(1, 4), F(3, 4)], True, 1, 'around')
def _mul_fit_ceil():
    x = Fxp(1.75, False, 4, 2, op_sizing='fit', rounding='ceil'); y = Fxp(0.5, False, 4, 2)
    return x * y        # 'fit' + raw method: only n_frac (=2) is handed to the inference, with the configuration of x
f1('F1e x*y, op_sizing="fit", rounding="ceil" (1.75*0.5 at n_frac=2)', _mul_fit_ceil, [F(7, 8)], False, 2, 'ceil')
# control: the default rounding (trunc) holds
f1('F1-control Fxp(1.75, n_frac=1) (trunc)', lambda: Fxp(1.75, n_frac=1), [F(7, 4)], True, 1, 'trunc')

# ----------------------------------------------------------------------------------------------------------------------
# F2  only n_frac given, negative: the inference crashes (the format itself is supported: see the control)
x, err = attempt(lambda: Fxp(256, n_frac=-2))
w, nf, q = expect_nfrac_only([256], True, -2)       # (8, -2): raw 64 needs 7 bits + sign
if err:
    report('F2 Fxp(256, n_frac=-2)', True, True, 'raised %s; expected fxp-s%d/%d holding 256 exactly' % (err, w, nf))
else:
    bad = (x.n_word, x.n_frac) != (w, nf) or stored(x) != q or bool(flags(x))
    report('F2 Fxp(256, n_frac=-2)', True, bad, 'got %s flags %s; expected fxp-s%d/%d' % (x.dtype, flags(x), w, nf))
x, err = attempt(lambda: Fxp(256, n_int=9, n_frac=-2))
report('F2-control Fxp(256, n_int=9, n_frac=-2)', True, bool(err) or (x.n_word, x.n_frac) != (8, -2) or stored(x) != [F(256)],
       err or 'got %s stored %s' % (x.dtype, [float(v) for v in stored(x)]))

# ----------------------------------------------------------------------------------------------------------------------
# F3  a Decimal scalar: n_frac is taken from the decimal context precision, not from the value
def f3(name, make, vals, signed, n_word=None):
    fx = max(min_frac(v) for v in vals); ni = min_int(vals, signed, fx)
    e = (ni + fx + int(signed), fx) if n_word is None else (n_word, min(fx, n_word - int(signed) - ni))
    x, err = attempt(make)
    if err:
        report(name, True, True, 'raised ' + err); return
    bad = (x.n_word, x.n_frac) != e or stored(x) != [F(v) for v in vals] or bool(flags(x))
    report(name, True, bad, 'got %s stored %s flags %s; expected (n_word, n_frac) = %s, exact, no flag' %
           (x.dtype, [float(v) for v in stored(x)], flags(x), e))
f3('F3a Fxp(Decimal("0.5"))', lambda: Fxp(Decimal('0.5')), [F(1, 2)], True)
f3('F3b Fxp(Decimal("0.5"), n_word=8)', lambda: Fxp(Decimal('0.5'), n_word=8), [F(1, 2)], True, n_word=8)
def _dec_prec2():
    with localcontext() as ctx:
        ctx.prec = 2
        return Fxp(Decimal('0.00390625'))
f3('F3c decimal context prec=2; Fxp(Decimal("0.00390625"))', _dec_prec2, [F(1, 256)], True)
f3('F3-control Fxp([Decimal("0.5")]) (list carrier)', lambda: Fxp([Decimal('0.5')]), [F(1, 2)], True)

# ----------------------------------------------------------------------------------------------------------------------
# BORDERLINE findings
# B1  n_word_max configured below sign + integer bits: saturation (overflow flag) instead of a quantization below one LSB
def capped(name, make, vals, n_word_max):
    x, err = attempt(make)
    if err:
        report(name, False, True, 'raised ' + err); return
    lsb = F(2)**(-x.n_frac)
    errs = [abs(a - F(b)) for a, b in zip(stored(x), vals)]
    bad = x.n_word > n_word_max or any(e >= lsb for e in errs) or x.status['overflow'] or x.status['underflow'] or \
        (any(e != 0 for e in errs) and not x.status['inaccuracy'])
    report(name, False, bad, 'got %s stored %s flags %s; expected word <= %d, error below one LSB, only the inexact flag' %
           (x.dtype, [float(v) for v in stored(x)], flags(x), n_word_max))
capped('B1a Fxp(1000.5, n_word_max=8)', lambda: Fxp(1000.5, n_word_max=8), [F(2001, 2)], 8)
capped('B1-control Fxp(1000.5, n_word=8)', lambda: Fxp(1000.5, n_word=8), [F(2001, 2)], 8)
x, err = attempt(lambda: Fxp(1000.5, n_word=6, n_word_max=8))
# only n_word given: n_frac = n_word - sign - n_int = 6 - 1 - 10 = -5 whatever the maximum is
report('B1b Fxp(1000.5, n_word=6, n_word_max=8)', False, bool(err) or (x.n_word, x.n_frac) != (6, -5) or x.status['overflow'],
       err or 'got %s flags %s; expected fxp-s6/-5 (as without n_word_max), no overflow' % (x.dtype, flags(x)))
capped('B1c Fxp(1.1 * 2.0**70) (default maximum 64)', lambda: Fxp(1.1 * 2.0**70), [F(1.1 * 2.0**70)], 64)

# B2  the public method set_best_sizes() called directly: its own default max_error=1e-6 (not config.max_error),
#     its own n_word_max, and the old raw value reinterpreted in the new format
v = F(1, 2) + F(1, 2**20)
def _direct():
    x = Fxp(None); x.set_best_sizes(float(v)); x(float(v)); return x
x, err = attempt(_direct)
report('B2a x.set_best_sizes(0.5 + 2**-20); x(0.5 + 2**-20)', False, bool(err) or (x.n_word, x.n_frac) != (21, 20) or stored(x) != [v] or bool(flags(x)),
       err or 'got %s stored %s flags %s; expected fxp-s21/20 exact' % (x.dtype, [float(s) for s in stored(x)], flags(x)))
def _stale():
    x = Fxp(100.0); x.set_best_sizes(0.5); x(0.5); return x
x, err = attempt(_stale)
report('B2b x = Fxp(100.0); x.set_best_sizes(0.5); x(0.5)', False, bool(err) or (x.n_word, x.n_frac) != (2, 1) or stored(x) != [F(1, 2)] or bool(flags(x)),
       err or 'got %s stored %s flags %s; expected fxp-s2/1, 0.5, no flag' % (x.dtype, [float(s) for s in stored(x)], flags(x)))

# B3  max_error configured: the result can be wrong by far more than max_error (|r_i| test accepts an overshoot that
#     truncation then drops completely)
v = F(1, 2) - F(1, 2**20)
x, err = attempt(lambda: Fxp(float(v), max_error=1e-6))
bad = bool(err) or abs(stored(x)[0] - v) > F(1, 10**6)
report('B3 Fxp(0.5 - 2**-20, max_error=1e-6)', False, bad,
       err or 'got %s stored %s (error %.6f); exact would be fxp-s21/20, and even the configured max_error is exceeded' %
       (x.dtype, [float(s) for s in stored(x)], float(abs(stored(x)[0] - v))))

# B4  only n_word given, above the maximum: the given word is silently replaced by 64
x, err = attempt(lambda: Fxp(0.5, n_word=100))
report('B4 Fxp(0.5, n_word=100)', False, bool(err) or (x.n_word, x.n_frac) != (100, 1),
       err or 'got %s; the given n_word=100 should be kept (Fxp(0.5, n_word=100, n_frac=1) is fxp-s100/1)' % x.dtype)

# B5  n_int given alone is silently ignored
x, err = attempt(lambda: Fxp(0.5, n_int=5))
report('B5 Fxp(0.5, n_int=5)', False, bool(err) or x.n_int != 5,
       err or 'got %s with n_int=%d; the given n_int=5 is dropped (the format is the minimal one, so the letter of the statement holds)' % (x.dtype, x.n_int))

# B6  Python / NumPy booleans (value 1 or 0) crash in set_val after the inference
x, err = attempt(lambda: Fxp(True))
report('B6 Fxp(True)', False, bool(err) or (x.n_word, x.n_frac) != (2, 0) or stored(x) != [F(1)], err or 'got %s' % x.dtype)

# B7  object array mixing real and complex numbers, real first: the complex decision is taken from element 0
x, err = attempt(lambda: Fxp(np.array([0.5, 1 + 2.5j], dtype=object)))
report('B7 Fxp(np.array([0.5, 1+2.5j], dtype=object))', False, bool(err) or (x.n_word, x.n_frac) != (4, 1),
       err or 'got %s' % x.dtype)
x, err = attempt(lambda: Fxp(np.array([1 + 2.5j, 0.5], dtype=object)))
report('B7-control Fxp(np.array([1+2.5j, 0.5], dtype=object))', False, bool(err) or (x.n_word, x.n_frac) != (4, 1), err or 'got %s' % x.dtype)

# B8  a value whose last bit is 2**-63 fits a 64-bit word but the search stops one bit early (|r_i| <= max_error = 2**-63)
v = F(1, 2**63)
x, err = attempt(lambda: Fxp(2.0**-63, signed=False))
report('B8a Fxp(2.0**-63, signed=False)', False, bool(err) or stored(x) != [v] or bool(flags(x)),
       err or 'got %s stored %s flags %s; fxp-u63/63 holds it exactly' % (x.dtype, [float(s) for s in stored(x)], flags(x)))
d = float.fromhex('0x1.123456789abcdp-11')      # a full 53-bit mantissa whose last bit is 2**-63
x, err = attempt(lambda: Fxp(d))
report('B8b Fxp(float.fromhex("0x1.123456789abcdp-11"))', False, bool(err) or stored(x) != [F(d)] or bool(flags(x)),
       err or 'got %s flags %s; fxp-s64/63 (not beyond the maximum) holds it exactly' % (x.dtype, flags(x)))

# B9  an empty array (the quantifier holds vacuously): the inference crashes on val.item(0)
x, err = attempt(lambda: Fxp(np.array([])))
report('B9 Fxp(np.array([]))', False, bool(err), err or 'got %s' % x.dtype)

# ----------------------------------------------------------------------------------------------------------------------
n_inside = sum(1 for inside, violated in results if inside and violated)
n_border = sum(1 for inside, violated in results if not inside and violated)
print('# %d clearly-inside violations, %d borderline violations' % (n_inside, n_border))
sys.exit(1 if n_inside else 0)
