#!/usr/bin/env python
"""C09 reproducers.  FXP_REPO=<dir containing fxpmath/> (default /tmp/wth-C09)."""
import os, sys, math, warnings
sys.path.insert(0, os.environ.get('FXP_REPO', '/tmp/wth-C09'))
warnings.simplefilter('ignore')
from fractions import Fraction as F
from fxpmath import Fxp

def fv(z):
    """exact value of a scalar Fxp from its raw code"""
    return F(int(z.val)) / F(2) ** z.n_frac

def mk(raw, signed, n_word, n_frac, method='raw'):
    x = Fxp(raw, signed=signed, n_word=n_word, n_frac=n_frac, raw=True, op_method=method)
    assert int(x.val) == raw and not x.status['overflow']
    return x

nviol = 0
def check(title, fx, fy, op, method='raw', want_flag_clean=False):
    """fx, fy = (raw, signed, n_word, n_frac); op in '//', '%'"""
    global nviol
    x = mk(*fx, method=method); y = mk(*fy, method=method)
    q = fv(x) / fv(y)
    exp = F(math.floor(q)) if op == '//' else fv(x) - fv(y) * math.floor(q)
    try:
        z = x // y if op == '//' else x % y
    except Exception as e:
        nviol += 1
        print('VIOLATION %s: got exception %r expected %s%s%s = %s' % (title, e, x.dtype, op, y.dtype, exp))
        return
    got = fv(z)
    flags = {k: v for k, v in z.status.items() if v and k in ('overflow', 'underflow', 'inaccuracy')}
    if got != exp or (want_flag_clean and flags):
        nviol += 1
        print('VIOLATION %s: got %s (%s, method=%s, flags=%s) expected %s with no flags' % (title, got, z.dtype, method, flags, exp))
    else:
        print('ok        %s: %s' % (title, got))

# F1: unsigned % unsigned, raw method: uint64 wrap of the pre-scaled operand (operands and result <= 53 bits)
check('F1a mod u41/0 % u2/24 wraps uint64 (dividend)', ((1 << 40) + 1, False, 41, 0), (3, False, 2, 24), '%')
check('F1b mod u2/40 % u30/0 wraps uint64 (divisor becomes 0)', (1, False, 2, 40), (1 << 24, False, 30, 0), '%')
check('F1c mod u48/0 % u20/22 (random hit)', (51981864641093, False, 48, 0), (1048574, False, 20, 22), '%')

# F2: floor division goes through float64 when an operand has n_frac > 0: operand wider than 53 bits is rounded
check('F2a floordiv u55/53 // u1/0 (result u2/0)', ((1 << 54) - 1, False, 55, 53), (1, False, 1, 0), '//')
check('F2b floordiv s60/30 // s4/0 (result s31/0)', ((1 << 59) - 1, True, 60, 30), (1, True, 4, 0), '//')
check('F2c floordiv u54/30 // u4/0 spurious overflow/inaccuracy flags (result u24/0)', ((1 << 54) - 1, False, 54, 30), (1, False, 4, 0), '//', want_flag_clean=True)
check('F2d mod repr disagrees with raw, u54/30 % u4/0 (result u34/30)', ((1 << 54) - 1, False, 54, 30), (1, False, 4, 0), '%', method='repr')

# F3 (borderline: negative n_frac): optimal size of // has n_word <= 0 -> crash ; int wrap ; OverflowError in %
check('F3a floordiv u1/1 // u1/-1 crashes (computed n_word = -1)', (1, False, 1, 1), (1, False, 1, -1), '//')
check('F3b floordiv s2/0 // s2/-3 crashes (computed signed n_word = 0, result -1 needed)', (1, True, 2, 0), (-1, True, 2, -3), '//')
check('F3c floordiv u5/-60 // u5/-60 wraps uint64', (31, False, 5, -60), (3, False, 5, -60), '//')
check('F3d mod u1/-40 % u2/24 raises OverflowError', (1, False, 1, -40), (3, False, 2, 24), '%')

print('%d violation(s)' % nviol)
sys.exit(1 if nviol else 0)
