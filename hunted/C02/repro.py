#!/usr/bin/env python
"""C02 hunt - reproducers.  Exit code 1 if any violation reproduces, 0 otherwise."""
import os, sys, warnings
sys.path.insert(0, os.environ.get('FXP_REPO', '/tmp/wth-C02'))
warnings.filterwarnings('ignore')
import numpy as np
from fractions import Fraction
import fxpmath
from fxpmath import Fxp

violations = 0


def codes(x):
    return [int(c) for c in np.asarray(x.val).flatten().tolist()]


def bounds(x):
    nw = x.n_word
    return (-(1 << (nw - 1)), (1 << (nw - 1)) - 1) if x.signed else (0, (1 << nw) - 1)


def report(title, got, expected, bad):
    global violations
    if bad:
        violations += 1
        print('VIOLATION %s: got %s expected %s' % (title, got, expected))
    else:
        print('ok        %s: got %s' % (title, got))


def guarded(title, fn):
    try:
        fn()
    except Exception as e:      # a reproducer that crashes is reported, not counted
        print('ERROR     %s: %r' % (title, e))


def check_codes(title, x, expected):
    lo, hi = bounds(x)
    cs = codes(x)
    report(title, '%s codes %s (range [%d, %d])' % (x.dtype, cs, lo, hi), 'codes %s' % (expected,),
           cs != expected or any(c < lo or c > hi for c in cs))


# ---------------------------------------------------------------------------------------------
# F1  saturating a float to the upper bound of a wide word stores max+1 (out of range code)
# ---------------------------------------------------------------------------------------------
def f1a_1():    # object path (n_word >= 64): np.float64(2**63) > 2**63-1 is False -> not clipped
    check_codes('F1a Fxp([2.0**63], True, 64, 0)', Fxp([2.0**63], True, 64, 0), [2**63 - 1])

def f1a_2():    # default best sizes
    check_codes('F1a Fxp([2.0**63]) (best sizes -> s64/0)', Fxp([2.0**63]), [2**63 - 1])

def f1a_3():    # upper + 1 LSB in a fractional 64 bit format, unsigned
    check_codes('F1a Fxp([2.0], False, 64, 63)', Fxp([2.0], False, 64, 63), [2**64 - 1])

def f1a_4():    # set_val / call on an existing object
    x = Fxp([0.0], True, 64, 64); x([0.5])
    check_codes('F1a x=Fxp([0.0],True,64,64); x([0.5])', x, [2**63 - 1])

def f1b_1():    # int64 path (55 <= n_word <= 63): np.vectorize'd clip casts the bound to float64
    check_codes('F1b Fxp([0.0, 1e18], True, 60, 0)', Fxp([0.0, 1e18], True, 60, 0), [0, 2**59 - 1])

def f1b_2():
    check_codes('F1b Fxp([1.0, 2.0**54], False, 54, 0)', Fxp([1.0, 2.0**54], False, 54, 0), [1, 2**54 - 1])

def f1b_3():    # integers only + resize history (scale_raw multiplies the codes by the float 2**-1)
    x = Fxp([0, 2**61], True, 63, 1)            # codes [0, 2**62-1]
    x.resize(n_word=62, n_frac=0)
    check_codes('F1b Fxp([0, 2**61], True, 63, 1).resize(n_word=62, n_frac=0)', x, [0, 2**61 - 1])

def f1b_4():    # result of an operation (repr method, same sizing)
    x = Fxp([0.25, 1.0], True, 60, 58, op_method='repr', op_sizing='same')   # codes [2**56, 2**59-1]
    y = x + x
    check_codes('F1b x=Fxp([0.25,1.0],True,60,58,op_method=repr,op_sizing=same); x+x', y, [2**57, 2**59 - 1])

def f1b_5():    # order dependence: same data, first element clipped -> fine (control, must be ok)
    check_codes('F1b control Fxp([1e18, 0.0], True, 60, 0)', Fxp([1e18, 0.0], True, 60, 0), [2**59 - 1, 0])


# ---------------------------------------------------------------------------------------------
# F2  scale/bias: upper/lower/precision lose the scaling after (raw write, resize)
# ---------------------------------------------------------------------------------------------
def f2():
    x = Fxp(1.0, True, 8, 2, scale=2.0, bias=1.0)
    x.equal(x)                  # any raw write: equal(Fxp), set_val(raw=True), ~x / & | ^ results, like()
    x.resize(n_word=10)         # now fxp-s10/2, scale=2.0, bias=1.0 still set
    hi, lo = 2**9 - 1, -2**9
    exp = (float(x.scale * Fraction(hi, 4) + x.bias), float(x.scale * Fraction(lo, 4) + x.bias), float(x.scale * Fraction(1, 4)))
    got = (x.upper, x.lower, x.precision)
    x(200.0)                    # 200.0 is stored exactly and read back, although upper claims 127.75
    report('F2 scaled Fxp: equal(); resize(n_word=10) -> (upper, lower, precision)',
           '%s (scale=%s bias=%s, then x(200.0) reads back %s)' % (got, x.scale, x.bias, x()), exp, got != exp)


# ---------------------------------------------------------------------------------------------
# F3  uint64 carriers (what an unsigned integer Fxp returns from x()) saturate on the wrong side
# ---------------------------------------------------------------------------------------------
def f3_1():
    x = Fxp(2**33, False, 40, 0)            # Python int input, in range of u40/0
    z = Fxp(None, True, 32, 30)             # range [-2, 2)
    z(x())                                  # x() is a uint64 array
    check_codes('F3 z=Fxp(None,True,32,30); z(Fxp(2**33,False,40,0)())', z, [2**31 - 1])

def f3_2():
    x = Fxp([2**33], False, 40, 0); y = Fxp([0], False, 40, 0)
    z = fxpmath.add(x, y, out=Fxp(None, True, 32, 30), method='repr')
    check_codes('F3 add(u40 2**33, u40 0, out=s32/30, method=repr)', z, [2**31 - 1])

def f3_3():     # not saturated at all (product wraps to 0)
    z = Fxp(None, True, 32, 30); z(Fxp(2**34, False, 40, 0)())
    check_codes('F3 z=Fxp(None,True,32,30); z(Fxp(2**34,False,40,0)())', z, [2**31 - 1])

def f3_4():     # direct NumPy carrier >= 2**63 (borderline: not a Python int)
    check_codes('F3 Fxp(np.uint64(2**63+5), True, 16, 0)', Fxp(np.uint64(2**63 + 5), True, 16, 0), [2**15 - 1])


# ---------------------------------------------------------------------------------------------
# F4  (borderline) a resize that dies with an unexpected OverflowError leaves a half-updated object
# ---------------------------------------------------------------------------------------------
def f4():
    x = Fxp(5, True, 16, 0)
    err = None
    try:
        x.resize(n_word=40, n_frac=63)
    except Exception as e:
        err = e
    ed = 'fxp-%s%d/%d' % ('s' if x.signed else 'u', x.n_word, x.n_frac)
    report('F4 Fxp(5,True,16,0).resize(n_word=40, n_frac=63)',
           'raised %r; afterwards dtype=%r n_word=%d n_frac=%d code=%s' % (err, x.dtype, x.n_word, x.n_frac, codes(x)),
           'no error and dtype %r (or an untouched object)' % ed, x.dtype != ed)


# ---------------------------------------------------------------------------------------------
# F5  (borderline) element of a 64 bit array: val is a bare Python int, get_dtype() crashes
# ---------------------------------------------------------------------------------------------
def f5():
    y = Fxp([1, 2], True, 64, 0)[0]
    try:
        got = y.get_dtype(); bad = got != 'fxp-s64/0'
    except Exception as e:
        got = 'raised %r (type(val)=%s)' % (e, type(y.val).__name__); bad = True
    report('F5 Fxp([1,2],True,64,0)[0].get_dtype()', got, "'fxp-s64/0'", bad)


# ---------------------------------------------------------------------------------------------
# B  (borderline, results of operations rather than inputs) internal int64 wrap -> opposite bound
# ---------------------------------------------------------------------------------------------
def b1():
    a = Fxp(2**17, True, 20, 0); b = Fxp(2**16, True, 20, 0)
    z = fxpmath.mul(a, b, out=Fxp(None, True, 32, 30))
    check_codes('B1 mul(2**17, 2**16, out=s32/30)', z, [2**31 - 1])

def b2():
    y = Fxp(2**60, True, 62, 0, shifting='trunc') << 3
    check_codes('B2 Fxp(2**60,True,62,0,shifting=trunc) << 3', y, [2**61 - 1])


for title, fn in [('F1a', f1a_1), ('F1a', f1a_2), ('F1a', f1a_3), ('F1a', f1a_4),
                  ('F1b', f1b_1), ('F1b', f1b_2), ('F1b', f1b_3), ('F1b', f1b_4), ('F1b', f1b_5),
                  ('F2', f2), ('F3', f3_1), ('F3', f3_2), ('F3', f3_3), ('F3', f3_4),
                  ('F4', f4), ('F5', f5), ('B1', b1), ('B2', b2)]:
    guarded(title, fn)

print('%d violation(s) reproduced' % violations)
sys.exit(1 if violations else 0)
