#!/usr/bin/env python
"""
C04 (status flags / callbacks) - reproducers.
fxpmath is imported from $FXP_REPO (default /tmp/wth-C04).
Prints "VIOLATION <title>: got ... expected ..." for every finding that reproduces; exit code 1 if any does.
Borderline items (arguably outside the quantifier) are printed as "BORDERLINE ..." and do not change the exit code.
Expected flags are computed with an exact oracle (Python ints / fractions.Fraction), never with floats.
"""
import os, sys, warnings
sys.path.insert(0, os.environ.get('FXP_REPO', '/tmp/wth-C04'))
warnings.simplefilter('ignore')
from fractions import Fraction as F
from decimal import Decimal
import numpy as np
import fxpmath
from fxpmath import Fxp
from fxpmath.callbacks import Callback


# ---------------------------------------------------------------- exact oracle
def _round(q, mode):
    fl = q.numerator // q.denominator
    ce = -((-q.numerator) // q.denominator)
    if mode == 'floor': return fl
    if mode == 'ceil': return ce
    if mode in ('trunc', 'fix'): return fl if q >= 0 else ce
    if mode == 'around':
        r = q - fl
        if r != F(1, 2): return fl if r < F(1, 2) else fl + 1
        return fl if fl % 2 == 0 else fl + 1
    raise ValueError(mode)

def oracle(vals, signed, n_word, n_frac, rounding='trunc', overflow='saturate', raw=False):
    """exact (stored codes, overflow, underflow, inaccuracy) of writing the exact rationals `vals`"""
    mx = (1 << (n_word - 1)) - 1 if signed else (1 << n_word) - 1
    mn = -mx - 1 if signed else 0
    o = u = i = False
    codes = []
    for v in vals:
        q = F(v) if raw else F(v) * F(2) ** n_frac
        r = _round(q, rounding)
        o |= r > mx
        u |= r < mn
        if overflow == 'saturate':
            s = min(mx, max(mn, r))
        else:
            s = r % (1 << n_word)
            if signed and s >= (1 << (n_word - 1)): s -= 1 << n_word
        i |= F(s) != q
        codes.append(s)
    return codes, o, u, i

def flags(x):
    return (bool(x.status['overflow']), bool(x.status['underflow']), bool(x.status['inaccuracy']))

def codes(x):
    return [int(v) for v in np.atleast_1d(x.val).ravel()]

class Log(Callback):
    def __init__(self): self.log = []
    def on_value_change(self, o, logs=None): self.log.append('value_change')
    def on_status_overflow(self, o, logs=None): self.log.append('overflow')
    def on_status_underflow(self, o, logs=None): self.log.append('underflow')
    def on_status_inaccuracy(self, o, logs=None): self.log.append('inaccuracy')

n_viol = 0
def report(title, got, expected, borderline=False):
    global n_viol
    if got != expected:
        if borderline:
            print('BORDERLINE {}: got {} expected {}'.format(title, got, expected))
        else:
            n_viol += 1
            print('VIOLATION {}: got {} expected {}'.format(title, got, expected))
    else:
        print('ok (not reproduced) {}'.format(title))

FL = '(overflow, underflow, inaccuracy)'

# ---------------------------------------------------------------- F1: uint64 carriers
def f1():
    # a) modest value in a uint64 array, s8/2 (max 31.75): 2**62 * 2**2 wraps to 0 in int64
    x = Fxp(np.array([2**62], dtype=np.uint64), True, 8, 2)
    exp = oracle([2**62], True, 8, 2)
    report('F1a uint64 array write: scaled product wraps in int64, overflow flag missed ' + FL,
           (codes(x), *flags(x)), (exp[0], *exp[1:]))
    # b) product wraps to a negative int64: underflow instead of overflow, saturates at the minimum
    x = Fxp(np.uint64(2**33), True, 32, 30)
    exp = oracle([2**33], True, 32, 30)
    report('F1b np.uint64 scalar 2**33 into s32/30: underflow raised instead of overflow ' + FL,
           (codes(x), *flags(x)), (exp[0], *exp[1:]))
    # c) the uint64 carrier is produced by the library itself: get_val() of an unsigned integer Fxp
    src = Fxp(16384, False, 16, 0)
    cb = Log()
    y = Fxp(None, True, 52, 50, callbacks=[cb]); cb.log.clear()
    y(src())                                    # src() is a uint64 ndarray holding 16384
    exp = oracle([16384], True, 52, 50)
    report('F1c y(x()) with x an unsigned integer Fxp (x() is uint64): no overflow flag, no overflow callback',
           (codes(y), *flags(y), sorted(cb.log)), (exp[0], *exp[1:], sorted(['overflow', 'inaccuracy', 'value_change'])))
    # d) uint64 >= 2**63 is reinterpreted as negative int64: -1 stored with no flag at all
    x = Fxp(np.array([2**64 - 1], dtype=np.uint64), True, 16, 0)
    exp = oracle([2**64 - 1], True, 16, 0)
    report('F1d uint64 2**64-1 into s16/0: stored -1 with no flag ' + FL,
           (codes(x), *flags(x)), (exp[0], *exp[1:]))

# ---------------------------------------------------------------- F2: negative n_frac, |int| > 2**53
def f2():
    # a) spurious overflow (+ spurious overflow callback); s8/-50: max = 127 * 2**50
    cb = Log()
    x = Fxp(None, True, 8, -50, callbacks=[cb]); cb.log.clear()
    x(2**57 - 1)                                  # exact code = trunc(128 - 2**-50) = 127 = max: in range
    exp = oracle([2**57 - 1], True, 8, -50)
    report('F2a int 2**57-1 into s8/-50 (trunc): spurious overflow flag and callback',
           (codes(x), *flags(x), sorted(cb.log)), (exp[0], *exp[1:], sorted(['inaccuracy', 'value_change'])))
    # same with wrap: the stored code is wrong too
    x = Fxp(2**57 - 1, True, 8, -50, overflow='wrap')
    exp = oracle([2**57 - 1], True, 8, -50, overflow='wrap')
    report('F2a\' same, overflow=wrap ' + FL, (codes(x), *flags(x)), (exp[0], *exp[1:]))
    # b) spurious underflow
    v = -(129 * 2**50 - 1)                        # exact code = trunc(-129 + 2**-50) = -128 = min: in range
    x = Fxp(v, True, 8, -50)
    exp = oracle([v], True, 8, -50)
    report('F2b int -(129*2**50-1) into s8/-50 (trunc): spurious underflow flag ' + FL,
           (codes(x), *flags(x)), (exp[0], *exp[1:]))
    # c) missed inaccuracy: 2**60+1 is stored as 2**60
    x = Fxp(2**60 + 1, True, 8, -54)
    exp = oracle([2**60 + 1], True, 8, -54)
    report('F2c int 2**60+1 into s8/-54: stored 2**60, inaccuracy flag missed ' + FL,
           (codes(x), *flags(x)), (exp[0], *exp[1:]))
    # d) same through an int64 ndarray and an indexed write
    x = Fxp([0, 0], True, 52, -3)
    x[1] = np.array(2**53 + 9, dtype=np.int64)    # exact code = floor((2**53+9)/8) = 2**50+1 ; stored*8 != input
    exp = oracle([2**53 + 9], True, 52, -3)
    report('F2d x[1] = int64 2**53+9 into s52/-3: inaccuracy flag missed ' + FL,
           (codes(x)[1:], *flags(x)), (exp[0], *exp[1:]))

# ---------------------------------------------------------------- F3: unary arithmetic loses inaccuracy
def f3():
    x = Fxp(0.3, True, 8, 4)
    assert x.status['inaccuracy']
    got = {'-x': (-x).status['inaccuracy'], '+x': (+x).status['inaccuracy'], 'abs(x)': abs(x).status['inaccuracy'],
           'x<<1': (x << 1).status['inaccuracy'], 'x>>1': (x >> 1).status['inaccuracy'],
           'fxp_sum(a)': fxpmath.fxp_sum(Fxp([0.3, 0.2], True, 8, 4)).status['inaccuracy']}
    report('F3 results of -x, +x, abs(x), x<<1, x>>1, fxp_sum(a) do not carry the operand\'s inaccuracy flag',
           got, {k: True for k in got})
    a = Fxp([0.3, 0.2], True, 8, 4); b = Fxp([1.0, 2.0], True, 8, 4)
    report('F3b a[0] + b[0] (a inaccurate): indexing drops the flag, so the sum does not carry it',
           bool((a[0] + b[0]).status['inaccuracy']), True, borderline=True)

# ---------------------------------------------------------------- F4: copy() / fxp_like() / flatten() share the status dict
def f4():
    x = Fxp(1.0, True, 8, 4)                      # exact, in range: no flag
    y = fxpmath.fxp_like(x, 1000.0)               # a write to y only
    report('F4a fxp_like(x, 1000.0) raises the flags of x (shared status dict) ' + FL, flags(x), (False, False, False))
    x = Fxp(1000.3, True, 8, 4)                   # overflow + inaccuracy on x
    y = x.copy(); y.reset()                       # reset of another object
    report('F4b y = x.copy(); y.reset() clears the sticky flags of x ' + FL, flags(x), (True, False, True))
    x = Fxp([1.0, 2.0], True, 8, 4)
    y = x.flatten(); y([1000.0, -1000.0])
    report('F4c y = x.flatten(); y(...) raises the flags of x ' + FL, flags(x), (False, False, False))

# ---------------------------------------------------------------- F5: raw scaling in functions wraps in int64 before the write
def f5():
    x = Fxp([16384.0, 1.0], True, 16, 0)
    z = Fxp(None, True, 52, 50)                   # max < 2
    x.max(out=z)
    exp = oracle([16384], True, 52, 50)
    report('F5a x.max(out=z), z s52/50, max = 16384: stored 0, no flag ' + FL, (codes(z), *flags(z)), (exp[0], *exp[1:]))
    z = Fxp(None, True, 52, 50)
    x.sum(out=z)
    exp = oracle([16385], True, 52, 50)
    report('F5b x.sum(out=z), z s52/50, sum = 16385: stored 1.0, no flag ' + FL, (codes(z), *flags(z)), (exp[0], *exp[1:]))
    a = Fxp(2**20, True, 24, 0, op_sizing='same'); b = Fxp(0.0625, True, 48, 47)
    q = a / b                                      # exact quotient 2**24 > max of s24/0
    exp = oracle([2**24], True, 24, 0)
    report('F5c a/b with op_sizing=same, a=2**20 (s24/0), b=1/16 (s48/47): stored 0, overflow flag missed ' + FL,
           (q.dtype, codes(q), *flags(q)), ('fxp-s24/0', exp[0], *exp[1:]))

# ---------------------------------------------------------------- F6: object ndarray whose first element is an int
def f6():
    v = np.array([1, 2.5], dtype=object)
    x = Fxp(v, True, 8, 0, rounding='ceil')
    exp = oracle([1, F(5, 2)], True, 8, 0, rounding='ceil')
    report('F6a object array [1, 2.5] into s8/0 (ceil): 2.5 truncated before rounding, inaccuracy missed ' + FL,
           (codes(x), *flags(x)), (exp[0], *exp[1:]))
    x = Fxp(v, True, 8, 1)
    exp = oracle([1, F(5, 2)], True, 8, 1)
    report('F6b object array [1, 2.5] into s8/1: 2.5 is representable but 2.0 is stored, no inaccuracy flag ' + FL,
           (codes(x), *flags(x)), (exp[0], *exp[1:]))

# ---------------------------------------------------------------- F7: Decimal input
def f7():
    x = Fxp(Decimal('0.3'), True, 16, 8)
    exp = oracle([F(3, 10)], True, 16, 8)
    report('F7a Decimal("0.3") into s16/8: inaccuracy flag missed ' + FL, (codes(x), *flags(x)), (exp[0], *exp[1:]))
    x = Fxp(Decimal('7.99'), True, 4, 0, rounding='ceil')
    exp = oracle([F(799, 100)], True, 4, 0, rounding='ceil')
    report('F7b Decimal("7.99") into s4/0 (ceil): rounded element 8 > max 7, overflow and inaccuracy missed ' + FL,
           (codes(x), *flags(x)), (exp[0], *exp[1:]))

# ---------------------------------------------------------------- borderline items
def borderline():
    # B1 constructor: two value-change notifications for one construction
    cb = Log()
    Fxp(1000.3, True, 8, 4, callbacks=[cb])
    report('B1 Fxp(1000.3, s8/4, callbacks=[cb]): on_value_change invoked twice (placeholder write in resize + the value)',
           cb.log, ['overflow', 'inaccuracy', 'value_change'], borderline=True)
    # B2 np.longdouble scalar is converted with float() before the comparison
    if np.finfo(np.longdouble).nmant > 52:
        v = np.longdouble(1) + np.longdouble(2) ** -60
        x = Fxp(v, True, 16, 4)
        report('B2 np.longdouble(1+2**-60) into s16/4: inaccuracy missed (float() applied first) ' + FL,
               flags(x), (False, False, True), borderline=True)
    # B3 complex value written by index into a real array: imaginary part dropped silently
    x = Fxp([1, 2, 3], True, 8, 0)
    x[0] = 1 + 2j
    report('B3 x[0] = 1+2j on a real s8/0 array: imaginary part dropped, inaccuracy not raised', flags(x), (False, False, True), borderline=True)
    # B4 flag inherited from an inaccurate Fxp source raises the flag without the inaccuracy callback
    cb = Log()
    y = Fxp(None, True, 16, 8, callbacks=[cb]); cb.log.clear()
    y(Fxp(0.3, True, 8, 4))
    report('B4 y(inaccurate Fxp): inaccuracy flag raised on y but on_status_inaccuracy not invoked',
           (y.status['inaccuracy'], sorted(cb.log)), (True, ['inaccuracy', 'value_change']), borderline=True)


for f in (f1, f2, f3, f4, f5, f6, f7, borderline):
    try:
        f()
    except Exception as e:     # a reproducer that crashes is reported, it is not a violation by itself
        print('ERROR in {}: {!r}'.format(f.__name__, e))

print('\n{} violation(s) reproduced'.format(n_viol))
sys.exit(1 if n_viol else 0)
