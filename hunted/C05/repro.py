#!/usr/bin/env python
"""Reproducers for property C05 (rounding contracts) -- see findings.md.

fxpmath is imported from $FXP_REPO (default /tmp/wth-C05).
Prints "VIOLATION <title>: got ... expected ..." for every finding that reproduces.
Exit code 1 if at least one (non-borderline) violation reproduces, else 0.
Borderline items are printed with the prefix "BORDERLINE" and do not change the exit code.
"""
import os
import sys
import math
import warnings
from decimal import Decimal
from fractions import Fraction as F

sys.path.insert(0, os.environ.get('FXP_REPO', '/tmp/wth-C05'))
warnings.filterwarnings('ignore')

import numpy as np
from fxpmath import Fxp


def oracle_code(v, n_frac, rounding):
    """Exact code demanded by the property for the exact value v (a Fraction); no float arithmetic."""
    s = F(v) * F(2) ** n_frac
    if rounding == 'floor':
        return math.floor(s)
    if rounding == 'ceil':
        return math.ceil(s)
    if rounding in ('trunc', 'fix'):
        return math.trunc(s)
    if rounding == 'around':
        c = math.floor(s)
        r = s - c
        if r > F(1, 2) or (r == F(1, 2) and c % 2):
            c += 1
        return c
    raise ValueError(rounding)


def codes(x):
    return [int(c) for c in np.asarray(x.val).flatten()]


n_viol = 0


def report(title, got, expected, borderline=False):
    global n_viol
    if got != expected:
        if borderline:
            print('BORDERLINE VIOLATION {}: got {} expected {}'.format(title, got, expected))
        else:
            n_viol += 1
            print('VIOLATION {}: got {} expected {}'.format(title, got, expected))
    else:
        print('ok        {}: got {}'.format(title, got))


# ----------------------------------------------------------------------------------------------
# F1. decimal.Decimal input: the configured rounding is ignored (always truncation toward zero)
# ----------------------------------------------------------------------------------------------
for dec, rnd in [('-0.3', 'floor'), ('0.2', 'ceil'), ('0.2', 'around'), ('-0.2', 'around'), ('2.6', 'around')]:
    for n_frac in (2, 0):
        try:
            x = Fxp(Decimal(dec), True, 8, n_frac, rounding=rnd)
            got = codes(x)[0]
        except Exception as e:      # pragma: no cover
            got = 'EXC {}: {}'.format(type(e).__name__, e)
        report('F1 Decimal({!r}) into s8/{} rounding={}'.format(dec, n_frac, rnd),
               got, oracle_code(F(dec), n_frac, rnd))

# ----------------------------------------------------------------------------------------------
# F2. object array whose first element is an int: the float elements are truncated to integers
#     BEFORE scaling (representable values are changed, no flag; rounding mode ignored)
# ----------------------------------------------------------------------------------------------
x = Fxp(np.array([1, 2.75], dtype=object), True, 8, 2)                       # 2.75 is representable in s8/2
report('F2 object array [1, 2.75] into s8/2 (trunc): codes', codes(x), [4, 11])
report('F2 object array [1, 2.75] into s8/2 (trunc): inaccuracy flag although value changed',
       (codes(x) == [4, 11]) or x.status['inaccuracy'], True)
x = Fxp(np.array([1, 2.8], dtype=object), True, 8, 0, rounding='ceil')
report('F2 object array [1, 2.8] into s8/0 rounding=ceil', codes(x), [1, oracle_code(F('2.8'), 0, 'ceil')])
x = Fxp(np.array([1, 2.8], dtype=object), True, 8, -1, rounding='ceil')
report('F2 object array [1, 2.8] into s8/-1 rounding=ceil', codes(x),
       [oracle_code(F(1), -1, 'ceil'), oracle_code(F('2.8'), -1, 'ceil')])
y = Fxp([0, 0, 0], True, 8, 2)
y[0:2] = np.array([1, 2.75], dtype=object)
report('F2 indexed assignment of object array [1, 2.75] into s8/2', codes(y), [4, 11, 0])
# control: same values, float first -> correct
x = Fxp(np.array([2.75, 1], dtype=object), True, 8, 2)
report('F2 control: object array [2.75, 1] into s8/2', codes(x), [11, 4])

# ----------------------------------------------------------------------------------------------
# F3. n_frac < 0: the scaling product v * 2**n_frac underflows to 0.0 for tiny non-zero floats,
#     so ceil (v > 0) / floor (v < 0) return 0 instead of +/- 1 LSB
# ----------------------------------------------------------------------------------------------
for v, rnd in [(5e-324, 'ceil'), (-5e-324, 'floor'), (2.0 ** -1067, 'ceil')]:
    for n_frac in (-1, -8):
        x = Fxp(v, True, 8, n_frac, rounding=rnd)
        report('F3 v={!r} into s8/{} rounding={}'.format(v, n_frac, rnd), codes(x)[0], oracle_code(F(v), n_frac, rnd))
x = Fxp([5e-324, 1.0], False, 8, -1, rounding='ceil')
report('F3 array [5e-324, 1.0] into u8/-1 rounding=ceil', codes(x),
       [oracle_code(F(5e-324), -1, 'ceil'), oracle_code(F(1), -1, 'ceil')])

# ----------------------------------------------------------------------------------------------
# Borderline items (arguably outside the quantifier / about the observation layer)
# ----------------------------------------------------------------------------------------------
# B1. get_val() disagrees with the stored code: an integer vdtype survives resize / like=, and a value stored
#     from an Fxp (raw path) never updates it -> get_val() floor-divides the fractional value
x = Fxp(3, True, 8, 0)
x.resize(True, 8, 2)
x.equal(Fxp(1.25, True, 8, 2))
report('B1 Fxp(3,s8/0).resize(s8/2).equal(Fxp(1.25)): get_val()', F(float(x.get_val())), F(5, 4), borderline=True)
x = Fxp(3, True, 8, 0)
x.resize(True, 8, 2)
x.equal(Fxp(-1.25, True, 8, 2))
report('B1 same with -1.25: get_val()', F(float(x.get_val())), F(-5, 4), borderline=True)

# B2. np.longdouble SCALAR is first rounded to nearest float64 (arrays of longdouble are handled exactly)
if np.finfo(np.longdouble).nmant > 52:
    v = np.longdouble(1) - np.longdouble(2) ** -60      # < 1
    x = Fxp(v, True, 8, 0, rounding='floor')
    report('B2 longdouble scalar 1-2**-60 into s8/0 rounding=floor', codes(x)[0], 0, borderline=True)
    x = Fxp(np.array([v]), True, 8, 0, rounding='floor')
    report('B2 control: longdouble array [1-2**-60]', codes(x)[0], 0, borderline=True)

# B3. a representable value coming from an Fxp that carries the inaccuracy flag is stored with the flag raised
a = Fxp(0.3, True, 8, 2)          # 0.25, inaccuracy=True
b = Fxp(a, True, 16, 8)           # 0.25 is representable in s16/8
report('B3 Fxp(Fxp(0.3,s8/2), s16/8).status[inaccuracy]', b.status['inaccuracy'], False, borderline=True)

# B4. decimal strings go through float(): a value just below a grid point is rounded up before floor
x = Fxp('0.49999999999999999999', True, 8, 1, rounding='floor')
report("B4 '0.49999999999999999999' into s8/1 rounding=floor", codes(x)[0],
       oracle_code(F('0.49999999999999999999'), 1, 'floor'), borderline=True)

print('{} violation(s) reproduced'.format(n_viol))
sys.exit(1 if n_viol else 0)
