#!/usr/bin/env python
"""C19 reproducers. fxpmath is imported from $FXP_REPO (default /repo)."""
import os, sys
sys.path.insert(0, os.environ.get('FXP_REPO', '/repo'))
import numpy as np
import fxpmath
from fxpmath import Fxp

violations = 0

def raw(z):
    v = np.asarray(z.val)
    if np.iscomplexobj(v):
        c = complex(v.reshape(-1)[0])
        return (int(c.real), int(c.imag))
    return int(v.reshape(-1)[0])

def check(title, fn, expected):
    global violations
    try:
        got = fn()
    except Exception as e:          # an exception is loud, not a silent wrap: reported but not counted
        print('ERROR     %s: raised %r' % (title, e))
        return
    if got != expected:
        violations += 1
        print('VIOLATION %s: got %r expected %r' % (title, got, expected))
    else:
        print('ok        %s: %r' % (title, got))

X, Y = 2**38 + 1, 2**38 + 3                  # 40-bit signed operands, exact product needs 78 bits

# ---- F1: out_like / config.op_out_like (default method 'raw', default sizing 'optimal') -------------------------------
def f1a():
    x, y = Fxp(X, True, 40, 0), Fxp(Y, True, 40, 0)
    return raw(fxpmath.mul(x, y, out_like=Fxp(None, True, 128, 0)))
check('F1a mul(s40, s40, out_like=s128/0) wraps modulo 2**64', f1a, X * Y)

def f1b():
    x, y = Fxp(X, True, 40, 0), Fxp(Y, True, 40, 0)
    x.config.op_out_like = Fxp(None, True, 128, 0)
    return raw(x * y)
check('F1b x * y with config.op_out_like=s128/0 wraps modulo 2**64', f1b, X * Y)

def f1c():
    a, b = Fxp(2**62, False, 63, 0), Fxp(2**62, False, 63, 0)
    return raw(fxpmath.add(a, b, out_like=Fxp(None, True, 128, 0)))
check('F1c add(u63, u63, out_like=s128/0) gives -2**63', f1c, 2**63)

def f1d():
    a, b = Fxp(2**54 + 1, True, 60, 1, raw=True), Fxp(1, True, 60, 1, raw=True)     # (2**54+1)/2 + 1/2
    return raw(fxpmath.add(a, b, out_like=Fxp(None, True, 128, 10)))
check('F1d add(s60/1, s60/1, out_like=s128/10) rounded to 53 bits', f1d, (2**54 + 2) << 9)

def f1e():
    a, b = Fxp(2**54 + 1, True, 60, 1, raw=True), Fxp(3, True, 60, 1, raw=True)
    return raw(fxpmath.mul(a, b, out_like=Fxp(None, True, 128, 10)))
check('F1e mul(s60/1, s60/1, out_like=s128/10) rounded to 53 bits', f1e, (3 * (2**54 + 1)) << 8)

# ---- F2: method='repr' / config.op_method='repr' with integer-valued operands (optimal sizing) ---------------------------
def f2a():
    x, y = Fxp(2**32, True, 34, 0), Fxp(-2**32, True, 34, 0)
    return raw(fxpmath.mul(x, y, method='repr'))
check("F2a mul(s34, s34, method='repr') = 0, no flag", f2a, -2**64)

def f2b():
    x, y = Fxp(X, True, 40, 0, op_method='repr'), Fxp(Y, True, 40, 0)
    return raw(x * y)
check("F2b x * y with config.op_method='repr' wraps modulo 2**64", f2b, X * Y)

def f2c():
    x, y = Fxp(2**32 - 1, False, 32, 0), Fxp(2**32 - 1, False, 32, 0)
    return raw(fxpmath.mul(x, y, method='repr'))
check("F2c mul(u32, u32, method='repr') = 0 (uint64 operands cast to int64)", f2c, (2**32 - 1)**2)

def f2d():
    x, y = Fxp(2**62, False, 63, 0), Fxp(2**62 + 5, False, 63, 0)
    return raw(fxpmath.add(x, y, method='repr'))
check("F2d add(u63, u63, method='repr') = 0 (uint64 operands cast to int64)", f2d, 2**63 + 5)

# ---- F3 (borderline: complex operands): raw codes are kept in complex128 ---------------------------------------------------
A = 2**27 - 1
def f3a():
    x = Fxp(complex(A, A), True, 28, 0)
    return raw(x * x)
check('F3a complex s28 * s28: imaginary part rounded to 53 bits', f3a, (0, 2 * A * A))

def f3b():
    x, y = Fxp(complex(2**53 - 1, 0), True, 54, 0), Fxp(complex(2**53 - 2, 0), True, 54, 0)
    return raw(x + y)
check('F3b complex s54 + s54: real part rounded to 53 bits', f3b, (2**54 - 3, 0))

print('%d violation(s)' % violations)
sys.exit(1 if violations else 0)
