#!/usr/bin/env python
"""C19 reproducers. FXP_REPO selects the fxpmath checkout (default /tmp/wth-C19).
Exit code 1 if any violation reproduces, 0 otherwise."""
import os, sys, warnings
sys.path.insert(0, os.environ.get('FXP_REPO', '/tmp/wth-C19'))
warnings.simplefilter('ignore')
import numpy as np
from fxpmath import Fxp

violations = 0

def check(title, thunk, expected):
    """thunk returns the raw integer code(s) of the result; expected is the exact code(s)."""
    global violations
    try:
        got = thunk()
    except Exception as e:                       # an exception is not an exact result either
        got = 'EXCEPTION ' + repr(e)
    if got != expected:
        violations += 1
        print('VIOLATION {}: got {} expected {}'.format(title, got, expected))
    else:
        print('ok        {}'.format(title))

def code(z):
    v = np.array(z.val, dtype=object)
    return int(v) if v.ndim == 0 else [int(t) for t in v.flatten()]

# ---------------------------------------------------------------------------------------------
# Finding 1: operands that are scalar ELEMENTS of an array Fxp (x[i], iteration) hold a NumPy
# scalar (np.int64 / np.uint64) in .val; _raw_cast's np.array(m, dtype=object) keeps that NumPy
# scalar inside the object array, so the "Python integer" arithmetic is still 64-bit.
# ---------------------------------------------------------------------------------------------
B = Fxp([3, 2**40], signed=True, n_word=42, n_frac=0, raw=True)
check('F1a mul of two s42/0 elements (2**40 * 2**40) wraps modulo 2**64',
      lambda: code(B[1] * B[1]), 2**80)
check('F1a-ref same operands built as scalar Fxp (control, must be ok)',
      lambda: code(Fxp(2**40, signed=True, n_word=42, n_frac=0, raw=True) * Fxp(2**40, signed=True, n_word=42, n_frac=0, raw=True)), 2**80)
check('F1b iterating an array Fxp: [a*b for a, b in zip(B, B)]',
      lambda: [code(a * b) for a, b in zip(B, B)], [9, 2**80])

X = Fxp([0, 2**38], signed=True, n_word=40, n_frac=0, raw=True)    # value 2**38
Y = Fxp([0, 1], signed=True, n_word=40, n_frac=30, raw=True)       # value 2**-30
check('F1c add s40/0 element + s40/30 element (aligned operand needs 69 bits) wraps',
      lambda: code(X[1] + Y[1]), 2**68 + 1)
check('F1d sub s40/0 element - s40/30 element wraps',
      lambda: code(X[1] - Y[1]), 2**68 - 1)
check('F1c-ref same addition on the whole arrays (control, must be ok)',
      lambda: code(X + Y), [0, 2**68 + 1])

U = Fxp([0, 2**60 + 1], signed=False, n_word=61, n_frac=0, raw=True)
S = Fxp([0, 1], signed=True, n_word=2, n_frac=0, raw=True)
check('F1e add u61/0 element + s2/0 element is rounded to a 53-bit mantissa (uint64+int64 -> float64)',
      lambda: code(U[1] + S[1]), 2**60 + 2)
check('F1f mul u61/0 element * s2/0 element is rounded to a 53-bit mantissa',
      lambda: code(U[1] * S[1]), 2**60 + 1)

check('F1g mul element (NumPy scalar) * whole array wraps',
      lambda: code(B[1] * B), [3 * 2**40, 2**80])

W = Fxp([0, 2**65], signed=True, n_word=70, n_frac=0, raw=True)
check('F1h mul s70/0 element * s42/0 element raises OverflowError instead of the exact product',
      lambda: code(W[1] * B[1]), 2**105)
check('F1i add s70/0 element + s42/0 element raises OverflowError instead of the exact sum',
      lambda: code(W[1] + B[1]), 2**65 + 2**40)

def _shift_trunc():
    x = Fxp(2**41, signed=True, n_word=43, n_frac=0, raw=True, shifting='trunc')
    y = x >> 1                                   # .val becomes np.int64 (objects.py __rshift__, non-'expand' branch)
    return code(y * y)
check("F1j scalar Fxp after '>> 1' with shifting='trunc' (val is np.int64): y*y wraps",
      _shift_trunc, 2**80)

# ---------------------------------------------------------------------------------------------
# Finding 2 (borderline: status flag, not the stored value): exact results of 64+ bits get
# status['inaccuracy']=True because set_val compares val with new_val/conv_factor in float64.
# ---------------------------------------------------------------------------------------------
def _flag():
    x = Fxp(2**33 - 1, signed=False, n_word=34, n_frac=33, raw=True)
    y = Fxp(2**47 - 1, signed=False, n_word=47, n_frac=1, raw=True)
    z = x + y
    exact = (2**33 - 1) + ((2**47 - 1) << 32)
    assert not x.status['inaccuracy'] and not y.status['inaccuracy']
    return (code(z) == exact, bool(z.status['inaccuracy']))
check("F2 (borderline) exact u34/33 + u47/1 -> u80/33 result carries a spurious 'inaccuracy' flag; (value exact, inaccuracy)",
      _flag, (True, False))

print('{} violation(s) reproduced'.format(violations))
sys.exit(1 if violations else 0)
