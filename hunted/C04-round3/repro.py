#!/usr/bin/env python
"""
C04 hunt (round 3) - re-checks every finding of findings.md with an exact oracle (Python ints / fractions.Fraction).
One line per finding, starting with VIOLATION or holds. Exit status 1 iff a clearly-inside finding (F1, F2) is violated.
"""
import os, sys, io, contextlib, warnings
sys.path.insert(0, os.environ.get('FXP_REPO', '/repo'))
import math
import numpy as np
from fractions import Fraction as F
import fxpmath
from fxpmath import Fxp
from fxpmath.callbacks import Callback

warnings.simplefilter('ignore')


class Rec(Callback):
    def __init__(self): self.ev = []
    def on_value_change(self, o, logs=None): self.ev.append('v')
    def on_status_overflow(self, o, logs=None): self.ev.append('o')
    def on_status_underflow(self, o, logs=None): self.ev.append('u')
    def on_status_inaccuracy(self, o, logs=None): self.ev.append('i')


def flags(x):
    return ''.join(k[0] for k in ('overflow', 'underflow', 'inaccuracy') if x.status[k])


def rnd(q, m):
    return {'floor': math.floor, 'ceil': math.ceil, 'trunc': math.trunc, 'fix': math.trunc, 'around': round}[m](q)


def oracle(vals, signed, nw, nf, rounding='trunc', ovf='saturate'):
    """exact model of one write: (overflow, underflow, inaccuracy, stored raw codes)"""
    mx = (1 << (nw - 1)) - 1 if signed else (1 << nw) - 1
    mn = -(1 << (nw - 1)) if signed else 0
    o = u = i = False
    stored = []
    for v in vals:
        q = rnd(F(v) * F(2) ** nf, rounding)
        o |= q > mx
        u |= q < mn
        if ovf == 'saturate':
            s = min(mx, max(mn, q))
        else:
            s = q & ((1 << nw) - 1)
            if signed and s >= (1 << (nw - 1)): s -= 1 << nw
        i |= F(s) / F(2) ** nf != F(v)
        stored.append(s)
    return o, u, i, stored


def fl(o, u, i):
    return ('o' if o else '') + ('u' if u else '') + ('i' if i else '')


results = []   # (id, inside?, violated?, text)


def report(fid, inside, violated, text):
    results.append((fid, inside, violated))
    print('{} {} [{}] {}'.format('VIOLATION' if violated else 'holds', fid, 'inside' if inside else 'borderline', text))


def guarded(fid, inside):
    def deco(f):
        try:
            f()
        except Exception as e:      # a crash is reported, but is not a flag violation
            print('holds {} [{}] (check raised {}: {})'.format(fid, 'inside' if inside else 'borderline', type(e).__name__, e))
        return f
    return deco


# ----------------------------------------------------------------------------------------------------------------------
# F1 (inside): a complex value written through an index into an object that holds real values:
#     the imaginary part is dropped by the store, the inaccuracy flag / callback stay silent
@guarded('F1', True)
def f1():
    for name, write in [('x[0] = 1+2j', lambda x: x.__setitem__(0, 1 + 2j)),
                        ('x[0:2] = [1+2j, 1]', lambda x: x.__setitem__(slice(0, 2), [1 + 2j, 1])),
                        ('x[...] = array([1j,2,3])', lambda x: x.__setitem__(Ellipsis, np.array([1j, 2, 3]))),
                        ('x[0] = Fxp(1+2j)', lambda x: x.__setitem__(0, Fxp(1 + 2j, True, 8, 2)))]:
        r = Rec()
        x = Fxp([1, 2, 3], True, 8, 2, callbacks=[r]); r.ev.clear()
        write(x)
        # exact comparison of the element stored at index 0 with its input (1+2j, or 1j for the third write)
        inp = (F(0), F(1)) if 'array' in name else (F(1), F(2))
        raw0 = complex(np.asarray(x.val).reshape(-1)[0])
        stored = (F(int(raw0.real), 4), F(int(raw0.imag), 4))
        differs = stored != inp
        got = x.status['inaccuracy']
        report('F1', True, differs != got,
               '{}: stored element {} vs input {} -> inaccuracy must be {}, is {}; callbacks {}'.format(
                   name, tuple(map(str, stored)), tuple(map(str, inp)), differs, got, ''.join(r.ev)))


# F2 (inside): a np.longdouble SCALAR is cast to float64 before it is rounded (a 0-d / 1-element array of the same value is exact)
@guarded('F2', True)
def f2():
    ld = np.longdouble
    if np.finfo(ld).nmant <= 52:
        print('holds F2 [inside] (np.longdouble has no extended precision on this platform: not applicable)')
        return
    cases = [('trunc', F(128) - F(1, 2 ** 50), ld(128) - ld(2) ** -50, 0, '128 - 2**-50'),      # 127.99.. -> 127: no overflow
             ('ceil', F(127) + F(1, 2 ** 55), ld(127) + ld(2) ** -55, 0, '127 + 2**-55'),        # -> 128: overflow
             ('trunc', F(1) + F(1, 2 ** 60), ld(1) + ld(2) ** -60, 4, '1 + 2**-60')]             # stored 1.0 != input: inaccuracy
    for rounding, exact, carrier, nf, txt in cases:
        assert F(int(carrier * ld(2) ** 60)) == exact * 2 ** 60      # the carrier holds the value exactly
        o, u, i, stored = oracle([exact], True, 8, nf, rounding)
        x = Fxp(carrier, True, 8, nf, rounding=rounding)
        y = Fxp(np.array(carrier), True, 8, nf, rounding=rounding)
        report('F2', True, flags(x) != fl(o, u, i),
               'Fxp(np.longdouble({}), s8/{}, {}): flags must be {!r}, scalar gives {!r} (0-d array gives {!r})'.format(
                   txt, nf, rounding, fl(o, u, i), flags(x), flags(y)))


# F3 (inside if the bit-level operators count as arithmetic): & | ^ (and &= |= ^=) drop the inaccuracy flag of the RIGHT operand
@guarded('F3', False)
def f3():
    import operator
    for name, op in [('b & a', operator.and_), ('b | a', operator.or_), ('b ^ a', operator.xor), ('b &= a', operator.iand)]:
        a = Fxp(0.3, True, 8, 4)      # 0.3 is not a multiple of 1/16: a carries the inaccuracy flag
        b = Fxp(1.0, True, 8, 4)
        assert a.status['inaccuracy'] and not b.status['inaccuracy']
        z = op(b, a)
        zl = op(Fxp(0.3, True, 8, 4), Fxp(1.0, True, 8, 4))
        report('F3', False, not z.status['inaccuracy'],
               '{}: a carries inaccuracy -> result must carry it, result flag is {} (with the operands swapped: {})'.format(
                   name, z.status['inaccuracy'], zl.status['inaccuracy']))


# ----------------------------------------------------------------------------------------------------------------------
# borderline findings
@guarded('B1', False)
def b1():
    r = Rec()
    Fxp(5, True, 8, 0, callbacks=[r])
    report('B1', False, r.ev.count('v') != 1, 'Fxp(5, s8/0, callbacks=[cb]): one write -> one value-change notification expected, got {}'.format(r.ev))
    r = Rec()
    Fxp(300, True, 8, 0, callbacks=[r])
    report('B1', False, sorted(r.ev) != sorted('oiv'), 'Fxp(300, s8/0, callbacks=[cb]): expected o,i,v once each, got {}'.format(r.ev))


@guarded('B2', False)
def b2():
    for name, write in [('x[0:2] = [300, 1, 2] (ValueError)', lambda x: x.__setitem__(slice(0, 2), [300, 1, 2])),
                        ('x[5] = 300 (IndexError)', lambda x: x.__setitem__(5, 300))]:
        r = Rec()
        x = Fxp([1, 2, 3], True, 8, 0, callbacks=[r]); r.ev.clear()
        try:
            write(x); raised = False
        except Exception:
            raised = True
        unchanged = [int(v) for v in x.val] == [1, 2, 3]
        report('B2', False, raised and unchanged and (flags(x) != '' or r.ev != []),
               '{}: nothing stored, flags must stay clear and no callback run; flags {!r}, callbacks {}'.format(name, flags(x), r.ev))


@guarded('B3', False)
def b3():
    from decimal import Decimal
    for s, nf in [('127.99999999999999999999', 0), ('0.5000000000000000000000001', 2)]:
        o, u, i, _ = oracle([F(Decimal(s))], True, 8, nf)
        x = Fxp(s, True, 8, nf)
        report('B3', False, flags(x) != fl(o, u, i), 'Fxp({!r}, s8/{}): flags must be {!r}, are {!r} (Decimal of the same digits gives {!r})'.format(
            s, nf, fl(o, u, i), flags(x), flags(Fxp(Decimal(s), True, 8, nf))))


@guarded('B4', False)
def b4():
    a = Fxp(128, False, 9, 0); b = Fxp(2 ** -48, False, 48, 48)
    exact = F(128) - F(1, 2 ** 48)
    o, u, i, _ = oracle([exact], True, 8, 0)
    z1 = fxpmath.sub(a, b, out_like=Fxp(None, True, 8, 0))
    z2 = fxpmath.sub(a, b, out=Fxp(None, True, 8, 0))
    report('B4', False, flags(z1) != fl(o, u, i), 'sub(128, 2**-48, out_like=s8/0): flags must be {!r}, are {!r} (out= route: {!r})'.format(fl(o, u, i), flags(z1), flags(z2)))
    a = Fxp(162, False, 8, 0); b = Fxp(-2 ** -48, True, 48, 48)
    exact = F(162) + F(1, 2 ** 48)
    o, u, i, _ = oracle([exact], True, 51, 2)
    z1 = fxpmath.sub(a, b, out_like=Fxp(None, True, 51, 2))
    z2 = fxpmath.sub(a, b, out=Fxp(None, True, 51, 2))
    report('B4', False, flags(z1) != fl(o, u, i), 'sub(162, -2**-48, out_like=s51/2): flags must be {!r}, are {!r} (out= route: {!r})'.format(fl(o, u, i), flags(z1), flags(z2)))


@guarded('B5', False)
def b5():
    a = Fxp([10.0], False, 8, 2); b = Fxp(20.0, False, 8, 2)
    out = Fxp([0], True, 12, 2)
    a.config.array_op_out = out
    z = np.subtract(a, b)                  # exact result -10: fits in `out` (signed), but the unsigned intermediate saturates at 0
    o, u, i, st = oracle([F(-10)], True, 12, 2)
    report('B5', False, [int(v) for v in z.val] != st,
           'np.subtract(u8/2 10, u8/2 20) with array_op_out=s12/2: exact result -10 fits, stored raw must be {}, is {}; flags {!r} (the underflow of the hidden intermediate is not reported)'.format(
               st, [int(v) for v in z.val], flags(z)))


@guarded('B6', False)
def b6():
    for val, nw, n in [(2 ** 50, 52, 14), (1, 8, 63), (1, 8, 64)]:
        x = Fxp(val, True, nw, 0, shifting='trunc')
        y = x << n
        o, u, i, st = oracle([F(val) * 2 ** n], True, nw, 0)
        report('B6', False, flags(y) != fl(o, u, i) or [int(y.val)] != st,
               'Fxp({}, s{}/0, shifting=trunc) << {}: flags must be {!r} and raw {}, are {!r} and {}'.format(val, nw, n, fl(o, u, i), st, flags(y), int(y.val)))


@guarded('B7', False)
def b7():
    for v in ([100, 1], [1, 100]):
        a = Fxp(v, False, 8, 0)
        z = a.clip(0, 7.5)
        exact = [min(max(F(e), F(0)), F(15, 2)) for e in v]
        o, u, i, st = oracle(exact, z.signed, z.n_word, z.n_frac)
        report('B7', False, flags(z) != fl(o, u, i), 'Fxp({}, u8/0).clip(0, 7.5): flags must be {!r}, are {!r} (stored {})'.format(v, fl(o, u, i), flags(z), z.val.tolist()))


@guarded('B8', False)
def b8():
    a = Fxp([0.3, 1.0], True, 8, 4)
    b = Fxp([1.0, 2.0], True, 8, 4)
    checks = [('a[0]', lambda: a[0]), ('a[0:2] + b', lambda: a[0:2] + b), ('a.like(b)', lambda: a.like(b)),
              ('Fxp(b).equal(a)', lambda: Fxp([1.0, 2.0], True, 8, 4).equal(a)),
              ('b.clip(Fxp(0.3), 2)', lambda: b.clip(Fxp(0.3, True, 8, 4), 2)),
              ('Fxp([Fxp(0.3), Fxp(1.0)], s8/4)', lambda: Fxp([Fxp(0.3, True, 8, 4), Fxp(1.0, True, 8, 4)], True, 8, 4))]
    for name, f in checks:
        z = f()
        report('B8', False, not z.status['inaccuracy'], '{}: the source carries inaccuracy, the result flag is {}'.format(name, z.status['inaccuracy']))


@guarded('B9', False)
def b9():
    x = Fxp(300, True, 8, 0)                                   # overflow raised on x
    for name, f in [('x & 15', lambda: x & 15), ('~x', lambda: ~x)]:
        z = f()
        report('B9', False, z.status['overflow'], '{}: no write on the result overflowed, its overflow flag is {}'.format(name, z.status['overflow']))
    y = Fxp(300, True, 8, 0); y -= 1
    report('B9', False, not y.status['overflow'], 'y = Fxp(300, s8/0); y -= 1: the flag raised on y must stay until reset(); overflow is {}'.format(y.status['overflow']))
    x = Fxp(1, True, 8, 0); c = x.copy(); c(300)
    report('B9', False, x.status['overflow'], 'c = x.copy(); c(300): no write on x, x.status overflow is {}'.format(x.status['overflow']))
    x = Fxp([1, 2, 3], True, 8, 0); v = x[0:2]; v[0] = 300
    report('B9', False, int(x.val[0]) != 1 and flags(x) == '', 'v = x[0:2]; v[0] = 300: x.val[0] changed to {} with x flags {!r}'.format(int(x.val[0]), flags(x)))


inside_bad = any(v for (_, inside, v) in results if inside)
print('\nsummary: {} lines, {} violations ({} clearly inside)'.format(len(results), sum(v for _, _, v in results), sum(v for _, i, v in results if i)))
sys.exit(1 if inside_bad else 0)
