#!/usr/bin/env python
"""
C20 hunt (round 3) - re-checks every finding of findings.md with an exact oracle (Python ints / Fractions).
One line per finding, starting with VIOLATION or holds.  Exit status 1 if a clearly-inside finding is violated.
"""
import os, sys, io, copy, contextlib, warnings
sys.path.insert(0, os.environ.get('FXP_REPO', '/repo'))
warnings.filterwarnings('ignore')
from fractions import Fraction
import numpy as np
import fxpmath
from fxpmath import Fxp, Config

inside_violated = False

def report(tag, inside, violated, detail):
    global inside_violated
    if violated and inside:
        inside_violated = True
    print('{} {} [{}] {}'.format('VIOLATION' if violated else 'holds', tag, 'INSIDE' if inside else 'BORDERLINE', detail))

def exact(arr, n_frac):
    """exact values (Fractions) of a raw integer array"""
    return [Fraction(int(v), 1 << n_frac) for v in np.asarray(arr).flatten().tolist()]

def quiet(f):
    with contextlib.redirect_stdout(io.StringIO()):
        return f()

# ---------------------------------------------------------------------------------------------------------------
# F1 (inside): chained indexed assignment writes the raw value through, but x.real / x.imag of x stay stale
# ---------------------------------------------------------------------------------------------------------------
x = Fxp([[1.5, 2.0], [3.0, 4.0]], True, 8, 2)
x[0][1] = 7.5                                   # 7.5 = 30 / 4 is representable: raw must become 30
raw_ok = [int(v) for v in x.val.flatten()] == [6, 30, 12, 16]
want = exact(x.val, 2)                          # what x holds now, exactly
got_real = [Fraction(float(v)) for v in np.asarray(x.real).flatten()]
got_val = [Fraction(float(v)) for v in np.asarray(x.get_val()).flatten()]
report('F1a real-stale-after-x[i][j]=v', True, not (raw_ok and got_real == want and got_val == want),
       'raw written through={} get_val={} x.real={} (expected {})'.format(raw_ok, [float(v) for v in got_val], [float(v) for v in got_real], [float(v) for v in want]))

x = Fxp([[1.5 + 1j, 2.0], [3.0, 4.0]], True, 8, 2)
x[0][1] = 7.5 - 2j
want_re = [Fraction(int(v.real), 4) for v in x.val.flatten()]
want_im = [Fraction(int(v.imag), 4) for v in x.val.flatten()]
got_re = [Fraction(float(v)) for v in np.asarray(x.real).flatten()]
got_im = [Fraction(float(v)) for v in np.asarray(x.imag).flatten()]
report('F1b real/imag-stale-complex', True, not (want_re[1] == Fraction(15, 2) and want_im[1] == -2 and got_re == want_re and got_im == want_im),
       'val real/imag={}/{} but x.real={} x.imag={}'.format([float(v) for v in want_re], [float(v) for v in want_im], [float(v) for v in got_re], [float(v) for v in got_im]))

# control: the direct form x[i, j] = v refreshes x.real
x = Fxp([[1.5, 2.0], [3.0, 4.0]], True, 8, 2)
x[0, 1] = 7.5
report('F1c control direct x[i,j]=v', True, [Fraction(float(v)) for v in x.real.flatten()] != exact(x.val, 2), 'x.real follows the direct indexed write')

# ---------------------------------------------------------------------------------------------------------------
# F2 (inside by the letter): j = None (np.newaxis) - x[i][None] = v does not write through; x[None] = v destroys the array
# ---------------------------------------------------------------------------------------------------------------
x = Fxp([[1, 2, 3], [4, 5, 6]], True, 8, 0)
a = np.array([[1, 2, 3], [4, 5, 6]])
x[0][None] = 9
a[0][None] = 9                                   # NumPy reference for "a view": writes through
report('F2a x[i][None]=v', True, [int(v) for v in x.val.flatten()] != [int(v) for v in a.flatten()],
       'x raw={} NumPy view semantics={}'.format(x.val.tolist(), a.tolist()))
x = Fxp([[1, 2, 3], [4, 5, 6]], True, 8, 0)
x[None] = 7
report('F2b x[None]=v', True, not (x.shape == (2, 3) and [int(v) for v in np.asarray(x.val).flatten()] == [7] * 6),
       'shape after write={} raw={} (expected shape (2, 3), all 7)'.format(x.shape, np.asarray(x.val).tolist()))

# ---------------------------------------------------------------------------------------------------------------
# Borderline findings
# ---------------------------------------------------------------------------------------------------------------
# B1: README "y = x.copy()(-1.25)": copy() shares the status record and the configuration
x = Fxp(0.5, True, 8, 4)
y = x.copy()(-1.2345)                            # inexact for y only; x holds 0.5 exactly
shared_flag = x.status['inaccuracy']
y.config.overflow = 'wrap'
report('B1 copy() (README pattern)', False, shared_flag or x.config.overflow != 'saturate' or y.status is x.status,
       'x.status[inaccuracy]={} after the write on y; x.config.overflow={} after y.config.overflow=wrap'.format(shared_flag, x.config.overflow))

# B2: conversions of an integer-format object hand out the internal value buffer
x = Fxp([1, 2, 3], True, 8, 0)
v = x.get_val(); v += 1000                       # no quantisation, no flag
leak1 = [int(r) for r in x.val] != [1, 2, 3]
x = Fxp([1, 2, 3], True, 8, 0)
np.asarray(x)[0] = 77
leak2 = int(x.val[0]) != 1
x = Fxp([1, 2, 3], True, 8, 0); x.config.array_output_type = 'array'
r = np.ravel(x); r[1] = 55
leak3 = int(x.val[1]) != 2
xf = Fxp([1.5, 2, 3], True, 8, 2); vf = xf.get_val(); vf += 1
report('B2 get_val()/np.asarray()/np.ravel() alias the buffer (n_frac=0)', False, leak1 or leak2 or leak3,
       'x changed through get_val()={} np.asarray()={} np.ravel() with array output={}; fractional format unaffected={}'.format(leak1, leak2, leak3, [int(q) for q in xf.val] == [6, 8, 12]))

# B3: callbacks= list is stored by reference
cbs = []
a_ = Fxp(1.0, callbacks=cbs); b_ = Fxp(2.0, callbacks=cbs)
a_.callbacks.append('cb')
report('B3 callbacks list shared', False, b_.callbacks == ['cb'] or cbs == ['cb'], 'b.callbacks={} caller list={} after a.callbacks.append'.format(b_.callbacks, cbs))

# B4: like= / like() with a template that names itself as op_out_like -> half-built clone, AttributeError on first use
DATA = Fxp(None, True, 24, 15); DATA.config.op_out_like = DATA
ok_template = (DATA + 1).dtype == 'fxp-s24/15'
try:
    z = Fxp(3.0).like(DATA) + 1
    b4 = z.dtype != 'fxp-s24/15'; d4 = z.dtype
except Exception as e:
    b4 = True; d4 = '{}: {}'.format(type(e).__name__, e)
d2 = DATA.deepcopy()
report('B4 like(DATA) with DATA.config.op_out_like = DATA', False, b4, 'DATA+1 ok={}, deepcopy(DATA)+1 ok={}, Fxp(3.0).like(DATA)+1 -> {}'.format(ok_template, (d2 + 1).dtype == 'fxp-s24/15', d4))

# B5: Config.update() / Fxp(**kwargs): hasattr() lets private names and method names through unvalidated
c = Config(); c.update(_rounding='junk')
x = quiet(lambda: Fxp(1.0, deepcopy=5))
try:
    x + x; d5 = 'x + x ok'
except Exception as e:
    d5 = 'x + x -> {}: {}'.format(type(e).__name__, e)
ign = Fxp(1.0, overflw='wrap').config.overflow
report('B5 update() bypasses the setters', False, c.rounding == 'junk' or x.config.deepcopy == 5,
       "config.rounding={!r} after update(_rounding='junk'); Fxp(1.0, deepcopy=5): {}; misspelt overflw='wrap' silently ignored (overflow={})".format(c.rounding, d5, ign))

# B6: resize() stores an invalid size before it raises; signed=2 is stored (the 0/1 check is dead code)
x = Fxp(1.5, True, 8, 2)
try:
    x.resize(n_word=-3); r6 = 'no error'
except Exception as e:
    r6 = type(e).__name__
s6 = x.n_word
x = Fxp(1.5, True, 8, 2); x.resize(signed=2)
report('B6 resize stores invalid sizes', False, s6 != 8 or x.signed is not True,
       'resize(n_word=-3) -> {} but x.n_word={} afterwards; resize(signed=2) stores signed={!r}'.format(r6, s6, x.signed))

# B7: loosely validated fields
c = quiet(lambda: Config(n_word_max=True, max_error=True, hex_prefix='zz', bin_prefix=5))
report('B7 bool sizes / arbitrary prefixes stored', False, c.n_word_max is True or c.hex_prefix == 'zz',
       'n_word_max={!r} max_error={!r} hex_prefix={!r} bin_prefix={!r}'.format(c.n_word_max, c.max_error, c.hex_prefix, c.bin_prefix))

# B8: asides on views / wide arrays
x = Fxp([[1.5 + 1j, 2.0], [3.0, 4.0]], True, 8, 2)
row = x[0]
b8a = not (Fraction(float(np.asarray(row.real).flatten()[0])) == Fraction(3, 2) if np.asarray(row.real).size == 2 else False)
x = Fxp([[1, 2], [3, 4]], True, 64, 0)
try:
    x[0, 0] = [1]
except Exception:
    pass
b8b = not all(isinstance(v, int) for v in x.val.flatten().tolist())
report('B8 view.real/.imag not the values; wide x[i,j]=[v] stores an array object', False, b8a or b8b,
       'x[0].real={} x[0].imag={}; wide raw after x[0,0]=[1]: {}'.format(row.real, row.imag, x.val.tolist()))

sys.exit(1 if inside_violated else 0)
