#!/usr/bin/env python
"""
C07 hunt - reproducers.

No violation of C07 was found inside its quantifier with the default configuration
(op_method='raw', no template, plain Fxp operands).  The reproducers below are all
BORDERLINE (arguably outside the quantifier, see findings.md); each one is tagged so.

Prints "VIOLATION <title>: got ... expected ..." for every reproducer that fires.
Exit code 1 if any of them reproduces, 0 otherwise.
"""
import os
import sys
import warnings

sys.path.insert(0, os.environ.get('FXP_REPO', '/tmp/wth-C07'))

import numpy as np
from fractions import Fraction as F
from fxpmath import Fxp

warnings.simplefilter('ignore')

hits = 0


def stored(z):
    """exact stored value(s) of an Fxp as Fractions (list for arrays)"""
    v = np.asarray(z.val)
    conv = lambda c: F(int(c)) / (F(2) ** z.n_frac)
    if v.ndim == 0:
        return conv(v)
    return [conv(c) for c in v.reshape(-1).tolist()]


def violation(title, got, expected):
    global hits
    hits += 1
    print('VIOLATION {}: got {} expected {}'.format(title, got, expected))


# ---------------------------------------------------------------------------------------
# B1 (borderline: non-default op_method='repr')
# operand whose vdtype is int while its format has fractional bits: the repr path adds
# x.get_val(), which floors the operand to an integer.
# ---------------------------------------------------------------------------------------
def b1():
    x = Fxp(3, True, 8, 0, op_method='repr')     # vdtype = int
    x.resize(n_frac=1)                           # fxp-s8/1, vdtype still int
    x.set_val(5, raw=True)                       # stored value 5 / 2 = 2.5
    y = Fxp(1, True, 8, 0)
    assert stored(x) == F(5, 2) and stored(y) == 1
    for name, z, exp in (('x+y', x + y, F(7, 2)), ('x-y', x - y, F(3, 2)), ('x*y', x * y, F(5, 2))):
        if stored(z) != exp:
            violation("[borderline op_method='repr'] int-vdtype operand with fractional bits is floored, " + name,
                      '{} ({})'.format(stored(z), z.dtype), exp)


# ---------------------------------------------------------------------------------------
# B2 (borderline: linearly scaled operands, scale/bias)
# only x.scaled is tested in _function_over_two_vars: x+y ignores the scale of y (raw path),
# y+x honours it (repr path) but the optimal size ignores the scale -> overflow.
# ---------------------------------------------------------------------------------------
def b2():
    x = Fxp(3, True, 8, 0)
    y = Fxp(5, True, 8, 0, scale=2, bias=1)      # value 5, raw code 2
    a, b = x + y, y + x
    if stored(a) != stored(b):
        violation('[borderline scaled operand] x+y != y+x, scale/bias of the right operand ignored',
                  'x+y={} y+x={}'.format(stored(a), stored(b)), '8 for both')
    y2 = Fxp(1000, True, 8, 0, scale=10)         # value 1000, raw code 100
    x2 = Fxp(100, True, 8, 0)
    z = y2 + x2
    if z.status['overflow'] or stored(z) != 1100:
        violation('[borderline scaled operand] optimal size ignores the scale: overflow on y+x',
                  '{} {} overflow={}'.format(stored(z), z.dtype, z.status['overflow']), '1100, no overflow flag')


# ---------------------------------------------------------------------------------------
# B3 (borderline: Fxp.template with an integer vdtype)
# the result inherits vdtype=int from the template: the stored code is exact, but the value
# returned by z() / z.get_val() / str(z) is floored.
# ---------------------------------------------------------------------------------------
def b3():
    old = Fxp.template
    try:
        Fxp.template = Fxp(None, True, 16, 0)    # n_frac = 0 -> template vdtype is int
        a = Fxp(1.5, True, 8, 4)
        b = Fxp(1.5, True, 8, 4)
        z = a * b
        got = z.get_val()
        if F(float(got)) != F(9, 4):
            violation('[borderline Fxp.template] product 1.5*1.5 reads back floored (template vdtype=int)',
                      '{} (raw {} {})'.format(got, z.val, z.dtype), '2.25')
    finally:
        Fxp.template = old


# ---------------------------------------------------------------------------------------
# B4 (borderline: NumPy error state / warnings turned into errors)
# the documented exception (negative difference of two unsigned scalars) is computed by
# letting an uint64 scalar subtraction wrap: RuntimeWarning by default, exception under
# np.errstate(over='raise') or warnings 'error' instead of 0 + underflow.
# ---------------------------------------------------------------------------------------
def b4():
    x = Fxp(3, False, 8, 0)
    y = Fxp(5, False, 8, 0)
    try:
        with np.errstate(over='raise'):
            z = x - y
        if int(z.val) != 0 or not z.status['underflow']:
            violation("[borderline np.errstate(over='raise')] unsigned negative difference",
                      '{} {}'.format(z.val, z.status), '0 with underflow')
    except FloatingPointError as e:
        violation("[borderline np.errstate(over='raise')] unsigned scalar 3-5 raises instead of 0+underflow",
                  repr(e), '0 with underflow raised')


# ---------------------------------------------------------------------------------------
# B5 (borderline: subclass of Fxp as operand, np.add / np.subtract / np.multiply)
# _set_array_output_type re-wraps the result with subclass(result): the format is re-inferred
# from the values (best sizes) instead of the growth rule. Values stay exact.
# ---------------------------------------------------------------------------------------
def b5():
    class My(Fxp):
        pass
    x = Fxp([1, -2], True, 8, 2, raw=True)
    y = My([3, 4], False, 8, 1, raw=True)
    for name, z, exp in (('np.add', np.add(x, y), 'fxp-s11/2'),
                         ('np.subtract', np.subtract(y, x), 'fxp-s11/2'),
                         ('np.multiply', np.multiply(x, y), 'fxp-s16/3')):
        if z.dtype != exp:
            violation('[borderline Fxp subclass operand] {} result format not the growth rule'.format(name),
                      z.dtype, exp)


for f in (b1, b2, b3, b4, b5):
    try:
        f()
    except Exception as e:      # a reproducer must never hide the others
        print('ERROR in {}: {!r}'.format(f.__name__, e))

print('{} borderline violation(s) reproduced; in-scope (default configuration) violations found: 0'.format(hits))
sys.exit(1 if hits else 0)
