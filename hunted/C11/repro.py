#!/usr/bin/env python
"""C11 reproducers. fxpmath is imported from $FXP_REPO (default /tmp/wth-C11)."""
import os, sys, io, contextlib
sys.path.insert(0, os.environ.get('FXP_REPO', '/tmp/wth-C11'))
import numpy as np
import fxpmath
from fxpmath import Fxp

violations = 0
def report(title, got, expected):
    global violations
    if got != expected:
        violations += 1
        print("VIOLATION %s: got %s expected %s" % (title, got, expected))
    else:
        print("ok        %s" % title)

def attempt(f):
    try:
        with contextlib.redirect_stdout(io.StringIO()):
            return f()
    except Exception as e:
        return 'EXCEPTION %s: %s' % (type(e).__name__, str(e)[:90])

def tolist(a):
    if isinstance(a, (list, tuple, np.ndarray)):
        return [tolist(v) for v in a]
    return str(a) if isinstance(a, str) else int(a)

def tc(code, n):            # exact oracle: n-character two's complement image
    return format(code % (1 << n), '0%db' % n)
def pt(s, nf):              # binary point nf digits from the right
    return s + '.' if nf == 0 else s[:-nf] + '.' + s[-nf:]

# ---------------------------------------------------------------------------------------------
# F1: bin(frac_dot=True) of a 1-D array raises when a code lies outside int64 (wide words)
for signed, nw, nf, codes in [(True, 65, 3, [0, 1 << 63]), (True, 70, 3, [-(1 << 63) - 1]),
                              (False, 64, 8, [5, 1 << 63]), (True, 256, 128, [-(1 << 255), (1 << 255) - 1])]:
    x = Fxp(codes, signed, nw, nf, raw=True)
    assert tolist(x.val) == codes
    got = attempt(lambda: tolist(x.bin(frac_dot=True)))
    report("F1 bin(frac_dot=True) on 1-D array %s%d/%d with a code beyond int64" % ('s' if signed else 'u', nw, nf),
           got, [pt(tc(c, nw), nf) for c in codes])

# F2: what bin()/hex() return for a 2-D Fxp cannot be fed back (list of NumPy str arrays)
codes = [[5, -5, -128], [127, 0, -1]]
x = Fxp(codes, True, 8, 3, raw=True)
for name, s in [('bin(prefix=True)', x.bin(prefix=True)), ('bin(frac_dot=True,prefix=True)', x.bin(frac_dot=True, prefix=True)),
                ('hex()', x.hex())]:
    report("F2 2-D round trip Fxp(x.%s, like=x)" % name, attempt(lambda: tolist(Fxp(s, like=x).val)), codes)
    report("F2 2-D round trip set_val(x.%s)" % name, attempt(lambda: tolist(Fxp(None, True, 8, 3).set_val(s).val)), codes)
    report("F2 2-D round trip Fxp(x.%s, raw=True)" % name.replace('frac_dot=True,', ''),
           attempt(lambda: tolist(Fxp(x.hex() if name == 'hex()' else x.bin(prefix=True), True, 8, 3, raw=True).val)), codes)
report("F2 2-D round trip from_bin(x.bin())", attempt(lambda: tolist(Fxp(None, True, 8, 3).from_bin(x.bin()).val)), codes)
xw = Fxp([[1 << 100, -1]], True, 128, 7, raw=True)
report("F2 2-D round trip s128 raw Fxp(x.hex(), raw=True)", attempt(lambda: tolist(Fxp(xw.hex(), True, 128, 7, raw=True).val)), [[1 << 100, -1]])

# F3: raw=True and a rendering with the binary point: wrong code whenever n_frac > 0
for signed, nw, nf, code in [(True, 4, 2, 6), (True, 2, 1, -2), (False, 8, 8, 255), (True, 128, 64, -(1 << 127) + 1)]:
    x = Fxp(code, signed, nw, nf, raw=True)
    s = x.bin(frac_dot=True, prefix=True)
    assert s == '0b' + pt(tc(code, nw), nf)
    report("F3 Fxp(%r.., raw=True) %s%d/%d" % (s[:14], 's' if signed else 'u', nw, nf),
           attempt(lambda: int(Fxp(s, signed, nw, nf, raw=True).val)), code)
    report("F3 set_val(.., raw=True) %s%d/%d" % ('s' if signed else 'u', nw, nf),
           attempt(lambda: int(Fxp(None, signed, nw, nf).set_val(s, raw=True).val)), code)
    report("F3 from_bin(x.bin(frac_dot=True), raw=True) %s%d/%d" % ('s' if signed else 'u', nw, nf),
           attempt(lambda: int(Fxp(None, signed, nw, nf).from_bin(x.bin(frac_dot=True), raw=True).val)), code)
    report("F3 fxpmath.from_bin(.., raw=True) %s%d/%d" % ('s' if signed else 'u', nw, nf),
           attempt(lambda: int(fxpmath.from_bin(x.bin(frac_dot=True), signed=signed, n_word=nw, n_frac=nf, raw=True).val)), code)

# F4 (borderline): prefixes the library itself lists as common render, but the rendering does not parse back
x = Fxp(-5, True, 8, 3, raw=True)
for p in ['b', '0b', 'B', '0B']:
    x.config.bin_prefix = p
    s = x.bin()
    report("F4 [borderline] config.bin_prefix=%r: Fxp(%r, like=x)" % (p, s), attempt(lambda: int(Fxp(s, like=x).val)), -5)
x.config.bin_prefix = None
for p in ['x', '0x', 'X', '0X', 'h', '0h', 'H', '0H']:
    x.config.hex_prefix = p
    s = x.hex()
    report("F4 [borderline] config.hex_prefix=%r: Fxp(%r, like=x)" % (p, s), attempt(lambda: int(Fxp(s, like=x).val)), -5)

print("%d violation(s)" % violations)
sys.exit(1 if violations else 0)
