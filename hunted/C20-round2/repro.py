#!/usr/bin/env python
"""C20 hunt, round 2 - reproducers. Exit code 1 if any VIOLATION reproduces, 0 otherwise.
BORDERLINE lines are informative only (arguably outside the quantifier) and do not affect the exit code."""
import os, sys, io, contextlib, warnings
sys.path.insert(0, os.environ.get('FXP_REPO', '/repo'))
warnings.simplefilter('ignore')
import numpy as np
from fxpmath import Fxp

violations = 0
def check(title, got, expected, borderline=False):
    global violations
    if got != expected:
        if borderline:
            print('BORDERLINE {}: got {} expected {}'.format(title, got, expected))
        else:
            violations += 1
            print('VIOLATION {}: got {} expected {}'.format(title, got, expected))
    else:
        print('ok        {}'.format(title))

def mk():
    return Fxp([1, 2, 3], signed=True, n_word=8, n_frac=0)

# ---- Finding 1: value conversions of an integer-format object (n_frac == 0) return the internal value buffer itself
x = mk(); a = x.astype(int); a[0] = 1000
check('F1a astype(int) result aliases the value buffer (write to the result changes x, out of range, no flag)',
      (x.val.tolist(), x.status['overflow']), ([1, 2, 3], False))

x = mk(); v = x(); x[1] = 50
check('F1b x() snapshot changes when x is written afterwards', v.tolist(), [1, 2, 3])

x = mk(); w = np.asarray(x); w += 200
check('F1c np.asarray(x) aliases the value buffer (in-place += on the array stores 201..203 in a s8/0 object)',
      x.val.tolist(), [1, 2, 3])

x = mk(); g = x.get_val(); r = x.real
check('F1d get_val() / .real are the buffer object itself', (g is x.val, r is x.val), (False, False))

x = mk(); x.config.array_output_type = 'array'; r = np.ravel(x); r[0] = 1000
check("F1e NumPy function route (array_output_type='array', np.ravel) returns a view of x's buffer", x.val.tolist(), [1, 2, 3])

x = Fxp([1, 2, 3], signed=False, n_word=64, n_frac=0); a = x(); a[0] = 2**70
check('F1f same with a 64-bit word (object buffer)', [int(t) for t in x.val], [1, 2, 3])

# contrast: fractional format returns a fresh array (so behaviour depends on n_frac)
x = Fxp([1, 2, 3], signed=True, n_word=8, n_frac=2); a = x.astype(float); a[0] = 1000
check('F1-contrast fractional format is independent', x.val.tolist(), [4, 8, 12])

# ---- Finding 2: a scalar indexed write on a >= 64-bit object stores a mutable 0-d ndarray INSIDE the value buffer;
#      tolist() / item() / x() hand that very object out
x = Fxp([1, 2, 3], signed=False, n_word=64, n_frac=0); x[1] = 5
check('F2a x[1] = 5 on fxp-u64/0 stores a 0-d ndarray (not a Python int) as buffer element', type(x.val[1]).__name__, 'int')
l = x.tolist(); elem = l[1]
try:
    elem[()] = 99       # mutate the object returned by the conversion
except TypeError:
    pass                # (a Python int: nothing to mutate)
check('F2b tolist() element is a live piece of the buffer (mutating it changes x)', [int(t) for t in x.val], [1, 5, 3])

# ---- Borderline items (do not affect the exit code)
x = Fxp(1.0, True, 8, 4)
with contextlib.redirect_stdout(io.StringIO()):
    y = x.copy()(-1.25)          # README: "y = x.copy()(-1.25)"
    y(1000)                      # overflow on y only
check('B1 README pattern y = x.copy()(v): y shares config and status with x (overflow on y marks x)',
      (y.config is x.config, x.status['overflow']), (False, False), borderline=True)

cbs = []; a = Fxp(1.0, callbacks=cbs); b = Fxp(2.0, callbacks=cbs); a.callbacks.append('cb')
check('B2 callbacks=list is stored by reference (shared by a, b and the caller list)', (b.callbacks, cbs), ([], []), borderline=True)

x = Fxp([[1, 2], [3, 4]], True, 8, 0); x[[0, 1]][0] = 9
check('B3 chained assignment through a fancy (list) first index does not write through', x.val.tolist(), [[9, 9], [3, 4]], borderline=True)

x = Fxp(1.0, True, 8, 4)
buf = io.StringIO()
with contextlib.redirect_stdout(buf):
    try:
        x.config.bin_prefix = 123; rejected = False
    except Exception:
        rejected = True
check('B4 invalid bin_prefix (int 123) is stored (as "123", warning printed) instead of rejected', (rejected, x.config.bin_prefix), (True, None), borderline=True)

x = Fxp(1.0, True, 8, 4)
try:
    x.resize(signed=5); rejected = False
except Exception:
    rejected = True
check('B5 resize(signed=5) stores 5 in x.signed (docstring: bool, or int 1 or 0)', (rejected, repr(x.signed)), (True, 'True'), borderline=True)

sys.exit(1 if violations else 0)
