#!/usr/bin/env python
"""C18 reproducers. FXP_REPO selects the fxpmath checkout (default /tmp/wth-C18)."""
import os, sys
sys.path.insert(0, os.environ.get('FXP_REPO', '/tmp/wth-C18'))
import numpy as np
from fxpmath import Fxp

violations = 0
def report(title, got, expected):
    global violations
    violations += 1
    print('VIOLATION %s: got %s expected %s' % (title, got, expected))

def attempt(f):
    try:
        return f(), None
    except Exception as e:          # noqa
        return None, '%s(%s)' % (type(e).__name__, str(e)[:90])

# ---- F1: x << n (default shifting='expand') saturates a wide scalar instead of growing the word
for signed, nw, code, n in ((True, 128, 1 << 126, 1), (False, 128, 1 << 127, 1), (True, 64, (1 << 62) + 1, 1),
                           (True, 128, -((1 << 126) + 1), 1), (True, 256, 1 << 63, 192)):
    x = Fxp(code, signed, nw, 0, raw=True)
    assert int(x.val) == code and x.config.shifting == 'expand'
    y, err = attempt(lambda: x << n)
    exp = code << n
    if err is not None:
        report('F1 lshift(expand) wide scalar %s%d code=%#x n=%d' % ('s' if signed else 'u', nw, code, n), err, hex(exp))
    elif int(y.val) != exp or y.status['overflow'] or y.status['underflow']:
        report('F1 lshift(expand) wide scalar %s%d code=%#x n=%d' % ('s' if signed else 'u', nw, code, n),
               '%s raw=%#x overflow=%s underflow=%s' % (y.dtype, int(y.val), y.status['overflow'], y.status['underflow']),
               'raw=%#x in a word grown to hold it, no overflow/underflow' % exp)
# control: the same operation is exact on a narrow word
y = Fxp(1 << 6, True, 8, 0, raw=True) << 1
assert int(y.val) == 1 << 7 and not y.status['overflow']

# ---- F2: x << n raises on every wide array (default shifting='expand')
for nw in (64, 128):
    x = Fxp([3, 5], True, nw, 0, raw=True)
    y, err = attempt(lambda: x << 1)
    if err is not None:
        report('F2 lshift(expand) wide array s%d [3,5]<<1' % nw, err, 'raw [6, 10]')
    elif [int(v) for v in y.val] != [6, 10]:
        report('F2 lshift(expand) wide array s%d [3,5]<<1' % nw, list(y.val), 'raw [6, 10]')
y = Fxp([3, 5], True, 63, 0, raw=True) << 1     # control: fine below 64 bits
assert [int(v) for v in y.val] == [6, 10]

# ---- F3: bin(frac_dot=True) raises on a 1-D wide array holding a code outside int64
for signed, nw, nf in ((False, 64, 0), (True, 128, 64)):
    codes = [3, 1 << (nw - 2)] if nw > 64 else [3, 1 << 63]
    x = Fxp(codes, signed, nw, nf, raw=True)
    assert [int(v) for v in x.val] == codes
    def dot(c):
        b = format(c, '0%db' % nw)
        return b + '.' if nf == 0 else b[:nw - nf] + '.' + b[nw - nf:]
    exp = [dot(c) for c in codes]
    got, err = attempt(lambda: list(x.bin(frac_dot=True)))
    if err is not None or got != exp:
        report('F3 bin(frac_dot=True) on 1-D %s%d/%d array' % ('s' if signed else 'u', nw, nf), err or got, exp)

# ---- F4: an element x[i] of a wide array (and x >> n with shifting='trunc') carries a bare Python int as val;
#          |, ^, <<, >>, & Fxp, int() then raise AttributeError (they work below 64 bits)
def f4(nw):
    bad = []
    x = Fxp([(1 << 20) + 1, 3], True, nw, 0, raw=True)
    e = x[0]
    c = (1 << 20) + 1
    ops = [('x[0] | 2', lambda: int((e | 2).val), c | 2), ('x[0] ^ 1', lambda: int((e ^ 1).val), c ^ 1),
           ('x[0] << 1', lambda: int((e << 1).val), c << 1), ('x[0] >> 1', lambda: int((e >> 1).val), None),
           ('x[0] & Fxp(3)', lambda: int((e & Fxp(3, True, nw, 0)).val), c & 3), ('int(x[0])', lambda: int(e), c)]
    t = Fxp(c, True, nw, 0, raw=True, shifting='trunc') >> 1
    ops += [('(x>>1 trunc) >> 1', lambda: int((t >> 1).val), c >> 2), ('(x>>1 trunc) | 1', lambda: int((t | 1).val), (c >> 1) | 1)]
    for name, f, exp in ops:
        got, err = attempt(f)
        if err is not None or (exp is not None and got != exp):
            bad.append((name, err or got, exp))
    return bad
assert f4(32) == [], f4(32)            # control: all fine on a 32-bit word
for nw in (64, 128):
    for name, got, exp in f4(nw):
        report('F4 s%d %s' % (nw, name), got, exp if exp is not None else 'a result')

# ---- B1 (borderline): indexed assignment stores 0-d ndarray wrappers, not Python ints, in the object array
x = Fxp([0, 0], True, 128, 0)
x[0] = 5
x.set_val((1 << 100) + 1, raw=True, index=1)
types = [type(v).__name__ for v in x.val]
if types != ['int', 'int']:
    print('BORDERLINE B1 element types after indexed assignment: got %s expected [int, int] (values %s are numerically exact)'
          % (types, [int(v) for v in x.val]))

sys.exit(1 if violations else 0)
