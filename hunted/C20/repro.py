#!/usr/bin/env python
"""C20 - objects are independent / inputs are never mutated: reproducers.
fxpmath is imported from $FXP_REPO (default /tmp/wth-C20)."""
import os, sys, io, contextlib, copy, warnings
sys.path.insert(0, os.environ.get('FXP_REPO', '/tmp/wth-C20'))
warnings.simplefilter('ignore')
import numpy as np
from fractions import Fraction
from fxpmath import Fxp, Config
import fxpmath.functions as F

violations = 0
def report(title, bad, got, expected, kind='VIOLATION'):
    global violations
    if bad:
        print('%s %s: got %s expected %s' % (kind, title, got, expected))
        if kind == 'VIOLATION':
            violations += 1
    else:
        print('ok        %s' % title)

def quiet(f, *a, **k):
    with contextlib.redirect_stdout(io.StringIO()):
        return f(*a, **k)

# ---------------------------------------------------------------------------
# F1  clip() multiplies the caller's bound containers in place
# ---------------------------------------------------------------------------
for label, call in [('np.clip(x, lo, hi)', lambda x, lo, hi: np.clip(x, lo, hi)),
                    ('x.clip(lo, hi)',     lambda x, lo, hi: x.clip(lo, hi)),
                    ('fxpmath.clip(x, lo, hi)', lambda x, lo, hi: F.clip(x, lo, hi))]:
    x = Fxp([0.5, 3.0, -2.25], True, 16, 4)
    lo = np.array([0.25, 0.5, -1.0]); hi = np.array([1.0, 1.5, 2.0])
    lo0, hi0 = lo.tolist(), hi.tolist()
    y = call(x, lo, hi)
    report('F1 %s mutates the ndarray bounds passed by the caller' % label,
           lo.tolist() != lo0 or hi.tolist() != hi0,
           'lo=%s hi=%s after the call (result %s)' % (lo.tolist(), hi.tolist(), y().tolist()),
           'lo=%s hi=%s unchanged' % (lo0, hi0))
# integer ndarray bounds (also int8: wraps) and list bounds (list *= 16 repeats the list)
x = Fxp([0.5, 3.0, -2.25], True, 16, 4)
lo = np.array([0, 1, -1]); hi = np.array([1, 2, 3])
np.clip(x, lo, hi)
report('F1 np.clip(x, int_lo, int_hi) mutates integer ndarray bounds', lo.tolist() != [0, 1, -1] or hi.tolist() != [1, 2, 3],
       'lo=%s hi=%s' % (lo.tolist(), hi.tolist()), 'lo=[0, 1, -1] hi=[1, 2, 3]')
lo = [0.25, 0.5, -1.0]; hi = [1.0, 1.5, 2.0]
try:
    np.clip(Fxp([0.5, 3.0, -2.25], True, 16, 4), lo, hi); err = None
except Exception as e:
    err = type(e).__name__
report('F1 np.clip(x, list_lo, list_hi) mutates the list bounds', len(lo) != 3 or len(hi) != 3,
       'len(lo)=%d len(hi)=%d (call raised %s)' % (len(lo), len(hi), err), 'len 3 / 3, lists unchanged')

# ---------------------------------------------------------------------------
# F2  conversions to ndarray return the live value buffer (integer formats)
# ---------------------------------------------------------------------------
convs = [('x()', lambda x: x()), ('x.get_val()', lambda x: x.get_val()), ('x.astype(int)', lambda x: x.astype(int)),
         ('np.asarray(x)', lambda x: np.asarray(x)), ('x.raw()', lambda x: x.raw())]
for name, conv in convs:
    x = Fxp([[1, 2], [3, 4]], True, 16, 0)
    a = conv(x)
    a[0, 0] = 100000            # not even representable in s16/0
    report('F2 %s of an integer-format Fxp is the value buffer itself (writing to the array changes x)' % name,
           int(x.val[0, 0]) != 1, 'x = %s, status %s' % (x().tolist(), x.status['overflow']), 'x = [[1, 2], [3, 4]]')
# same array for a float-valued n_frac=0 object through astype(int); and any format with array_op_method='raw'
x = Fxp([[1., 2.], [3., 4.]], True, 16, 0); a = x.astype(int); a[0, 0] = 9
report('F2 x.astype(int) (float vdtype, n_frac=0) aliases x', int(x.val[0, 0]) != 1, x().tolist(), '[[1.0, 2.0], [3.0, 4.0]]')
x = Fxp([[0.5, 0.25], [1.0, 2.0]], True, 16, 8, array_op_method='raw'); a = np.asarray(x); a[0, 0] = 0
report("F2 np.asarray(x) with array_op_method='raw' aliases x (fractional format)", int(x.val[0, 0]) != 128, x().tolist(), '[[0.5, 0.25], [1.0, 2.0]]')
# control: fractional format gives a fresh array
x = Fxp([[0.5, 0.25], [1.0, 2.0]], True, 16, 8); a = x(); a[0, 0] = 9
assert x().tolist() == [[0.5, 0.25], [1.0, 2.0]]

# ---------------------------------------------------------------------------
# F3  fxp_like(x, v) shares status and config with x
# ---------------------------------------------------------------------------
TEMPLATE = Fxp(None, True, 16, 4)
s1 = F.fxp_like(TEMPLATE, 0.5)          # exact
s2 = F.fxp_like(TEMPLATE, 0.3)          # inexact: 0.3 is not a multiple of 2**-4
assert Fraction(0.5) * 16 % 1 == 0 and Fraction(0.3) * 16 % 1 != 0
report('F3 fxp_like(TEMPLATE, 0.3) marks TEMPLATE and its sibling inexact (shared status dict)',
       TEMPLATE.status['inaccuracy'] or s1.status['inaccuracy'],
       'TEMPLATE.inaccuracy=%s s1.inaccuracy=%s (s1.status is TEMPLATE.status: %s)' % (TEMPLATE.status['inaccuracy'], s1.status['inaccuracy'], s1.status is TEMPLATE.status),
       'False False')
s1.config.overflow = 'wrap'
report('F3 config change on fxp_like() result changes the template (shared Config)', TEMPLATE.config.overflow != 'saturate',
       'TEMPLATE.config.overflow=%r' % TEMPLATE.config.overflow, "'saturate'")

# ---------------------------------------------------------------------------
# F4  x.T / x.flatten() / x.ravel() share state with x
# ---------------------------------------------------------------------------
x = Fxp([[0.5, 0.25], [1.0, 2.0]], True, 16, 8)
t = x.T
t[0] = [3.0, 4.0]                      # not a chained x[i][j] write: a write on the derived object
report('F4 indexed write on x.T changes x (shared value buffer)', x().tolist() != [[0.5, 0.25], [1.0, 2.0]], x().tolist(), '[[0.5, 0.25], [1.0, 2.0]]')
x = Fxp([[0.5, 0.25], [1.0, 2.0]], True, 16, 8); t = x.T
t.set_val(1e6)                          # overflow + replaces t's buffer
report('F4 overflowing write on x.T raises the flags of x (shared status)', x.status['overflow'], x.status, 'all False')
t.config.rounding = 'ceil'
report('F4 config change on x.T changes x.config', x.config.rounding != 'trunc', repr(x.config.rounding), "'trunc'")
for nm in ('flatten', 'ravel'):
    x = Fxp([[0.5, 0.25], [1.0, 2.0]], True, 16, 8)
    f = getattr(x, nm)()
    f[0] = 0.3                          # inexact write on the copy
    f.config.overflow = 'wrap'
    report('F4 x.%s() shares status and config with x' % nm, x.status['inaccuracy'] or x.config.overflow != 'saturate',
           'x.inaccuracy=%s x.config.overflow=%r' % (x.status['inaccuracy'], x.config.overflow), "False 'saturate'")

# ---------------------------------------------------------------------------
# Borderline items (reported, not counted)
# ---------------------------------------------------------------------------
x = Fxp(0.5, True, 16, 4); y = x.copy()(0.3)      # README: "y = x.copy()(-1.25)"
report('B1 README pattern x.copy()(v): shallow copy shares status/config with x', x.status['inaccuracy'], 'x.inaccuracy=%s' % x.status['inaccuracy'], 'False', 'BORDERLINE')
cbs = []
a = Fxp(1.0, True, 16, 8, callbacks=cbs); b = Fxp(2.0, True, 16, 8, callbacks=cbs)
a.callbacks.append(object())
report("B2 callbacks=list is stored by reference (shared by objects and with the caller's list)", len(b.callbacks) != 0 or len(cbs) != 0,
       'len(b.callbacks)=%d len(cbs)=%d' % (len(b.callbacks), len(cbs)), '0 0', 'BORDERLINE')
x = Fxp(np.arange(12).reshape(3, 4) / 4, True, 16, 8); x[[0, 2]][1] = 2.5
report('B3 x[[0, 2]][1] = v (fancy first index) does not write through', float(x.val[2, 0]) / 256 != 2.5, x()[2].tolist(), '[2.5, 2.5, 2.5, 2.5]', 'BORDERLINE')
c = Config(); stored = []
for f, v in [('max_error', True), ('max_error', float('inf')), ('n_word_max', True)]:
    try:
        setattr(c, f, v); stored.append('%s=%r' % (f, getattr(c, f)))
    except Exception:
        pass
try:
    quiet(setattr, c, 'bin_prefix', 5); stored.append('bin_prefix=%r' % c.bin_prefix)
except Exception:
    pass
report('B4 Config stores odd values instead of rejecting them', bool(stored), stored, 'ValueError for each', 'BORDERLINE')

sys.exit(1 if violations else 0)
