#!/usr/bin/env python
"""
C03 hunt (round 3) - re-checks every finding of findings.md against an exact oracle (Python ints / Fractions only).
Prints one line per finding ("VIOLATION ..." or "holds ..."); exit status 1 if a finding classed INSIDE is violated.
"""
import os, sys, math, io, contextlib, warnings
sys.path.insert(0, os.environ.get('FXP_REPO', '/repo'))
warnings.simplefilter('ignore')
from fractions import Fraction as F
from decimal import Decimal
import numpy as np
import fxpmath
from fxpmath import Fxp


# ---------------------------------------------------------------- exact oracle
def rnd(q, method):
    q = F(q)
    if method == 'floor': return math.floor(q)
    if method == 'ceil': return math.ceil(q)
    if method in ('fix', 'trunc'): return math.trunc(q)
    if method == 'around': return round(q)      # ties to even, as np.around
    raise ValueError(method)

def wrap(k, signed, n_word):
    m = 1 << n_word
    k %= m
    return k - m if signed and k >= m >> 1 else k

def code(v, signed, n_word, n_frac, rounding='trunc'):
    """the unique in-range integer congruent to round(v * 2**n_frac) modulo 2**n_word"""
    return wrap(rnd(F(v) * F(2) ** n_frac, rounding), signed, n_word)

def raws(x):
    return [int(t) for t in np.asarray(x.val).flatten().tolist()]

def value(x):
    """exact values of the codes held by an (unscaled) Fxp"""
    return [F(t) / F(2) ** x.n_frac for t in raws(x)]


results = []
def check(tag, inside, fn):
    try:
        with contextlib.redirect_stdout(io.StringIO()):
            got, exp, note = fn()
        ok = got == exp
        msg = 'got %s expected %s %s' % (got, exp, note)
    except Exception as e:      # an exception is not a silent wrong value: reported, counted as "holds"
        ok, msg = True, 'raised %s: %s' % (type(e).__name__, str(e)[:80])
    results.append((inside, ok))
    print('%s %s [%s] %s' % ('holds    ' if ok else 'VIOLATION', tag, 'INSIDE' if inside else 'borderline', msg))


# ================================================================ INSIDE
# A. out_like= / config.op_out_like: the result is evaluated in float64 (the 'repr' path) although op_method is 'raw'
def A_mul_out_like():
    t = Fxp(None, True, 16, 20, overflow='wrap')
    x = Fxp(2**20 + 2**-10, True, 32, 10)                      # raw 2**30 + 1, exactly representable
    assert raws(x) == [2**30 + 1] and x.config.op_method == 'raw'
    z = fxpmath.mul(x, x, out_like=t)
    assert z.config.overflow == 'wrap'
    v = value(x)[0]
    return raws(z), [code(v * v, True, 16, 20)], '(out= with the same format gives %s)' % raws(fxpmath.mul(x, x, out=Fxp(None, like=t)))
check('A1 mul(x, x, out_like=wrap16/20)', True, A_mul_out_like)

def A_op_out_like():
    t = Fxp(None, True, 16, 20, overflow='wrap')
    x = Fxp(2**20 + 2**-10, True, 32, 10)
    x.config.op_out_like = t
    v = value(x)[0]
    return raws(x * x), [code(v * v, True, 16, 20)], '(operator form, config.op_out_like)'
check('A2 x * x with config.op_out_like', True, A_op_out_like)

def A_add_out_like():
    t = Fxp(None, True, 8, 20, overflow='wrap')
    a = Fxp(2**40, True, 42, 0); b = Fxp(2**-20, True, 22, 21)
    va, vb = value(a)[0], value(b)[0]
    return raws(fxpmath.add(a, b, out_like=t)) + raws(fxpmath.sub(a, b, out_like=t)), \
        [code(va + vb, True, 8, 20), code(va - vb, True, 8, 20)], '(add, sub)'
check('A3 add / sub(a, b, out_like=wrap8/20)', True, A_add_out_like)

def A_sum_out_like():
    t = Fxp(None, True, 8, 20, overflow='wrap')
    v = Fxp([2**31 - 2**-20] * 5, True, 52, 20)                 # five codes 2**51 - 1: the sum needs 54 bits
    assert raws(v) == [2**51 - 1] * 5
    return raws(fxpmath.sum(v, out_like=t)), [code(sum(value(v)), True, 8, 20)], '(reduction; out= gives %s)' % raws(fxpmath.sum(v, out=Fxp(None, like=t)))
check('A4 sum(v, out_like=wrap8/20)', True, A_sum_out_like)

# B. the wrap configuration is not carried to the result of <<, unary -, abs and the one-operand functions
def B_lshift():
    x = Fxp(3, True, 8, 0, overflow='wrap', shifting='trunc')
    y = x
    y <<= 6
    return raws(y) + [y.config.overflow], [code(3 * 2**6, True, 8, 0), 'wrap'], '(x <<= 6, shifting=trunc: 8-bit register 0b11000000)'
check('B1 x <<= 6 on a wrap-configured s8/0', True, B_lshift)

def B_neg():
    x = Fxp([-128, 5], True, 8, 0, overflow='wrap')
    return raws(-x) + raws(abs(x)), [code(128, True, 8, 0), -5, code(128, True, 8, 0), 5], '(-x, abs(x))'
check('B2 -x / abs(x) at the most negative code', True, B_neg)

def B_sum_same():
    x = Fxp([100, 100, 100], True, 8, 0, overflow='wrap', op_sizing='same')
    s1 = x.sum(); s2 = x.cumsum(); s3 = x + x
    return raws(s1) + raws(s2) + raws(s3), [code(300, True, 8, 0)] + [code(100 * k, True, 8, 0) for k in (1, 2, 3)] + [code(200, True, 8, 0)] * 3, \
        '(x.sum(), x.cumsum() versus x + x, all op_sizing=same)'
check('B3 x.sum() / x.cumsum() with op_sizing=same', True, B_sum_same)

def B_rsub_best():
    x = Fxp(-100, True, 8, 0, overflow='wrap', op_input_size='best')
    return raws(100 - x) + raws(x * (-1) + 100), [code(200, True, 8, 0)] * 2, '(100 - x versus x*(-1) + 100, op_input_size=best)'
check('B4 100 - x with op_input_size=best', True, B_rsub_best)

# C. % in the raw method: the operands rescaled with a negative shift are floats, and the float64 % rounds
def C_mod():
    x = Fxp(-2**-10, True, 12, 10); y = Fxp(2**51 - 1, False, 52, 0)
    z = Fxp(None, True, 16, 8, overflow='wrap')
    vx, vy = value(x)[0], value(y)[0]
    m = vx - vy * math.floor(vx / vy)        # Python / NumPy modulo (sign of the divisor)
    return raws(fxpmath.mod(x, y, out=z)), [code(m, True, 16, 8)], '(method raw, out=wrap16/8)'
check('C1 mod(x, y, out=wrap16/8)', True, C_mod)


# ================================================================ BORDERLINE
def D_cumprod_wide():
    x = Fxp([1.5, 1.5], True, 44, 40)
    z = Fxp(None, True, 96, 70, overflow='wrap')
    return raws(fxpmath.cumprod(x, out=z)), [code(F(3, 2), True, 96, 70), code(F(9, 4), True, 96, 70)], '(out n_frac >= 64 and < k * x.n_frac)'
check('D1 cumprod(x, out=wrap96/70)', False, D_cumprod_wide)

def E_fxp_sum():
    x = Fxp([(2**51 - 1) / 16] * 5, True, 52, 4, overflow='wrap')
    assert raws(x) == [2**51 - 1] * 5
    s = fxpmath.fxp_sum(x, sizes='same_sizes')
    return raws(s) + [s.config.overflow], [wrap(5 * (2**51 - 1), True, 52), 'wrap'], '(float accumulation of 5 x 51-bit codes)'
check('E1 fxp_sum(x, sizes=same_sizes)', False, E_fxp_sum)

def F_raw_mixed():
    codes = [61379, -471135513.5, -26734576630259273]          # raw codes; the third is an integer of 55 bits
    x = Fxp(codes, True, 45, 16, raw=True, overflow='wrap')
    return raws(x), [wrap(rnd(F(c), 'trunc'), True, 45) for c in codes], '(raw=True, list mixing int codes >= 2**53 and a float code)'
check('F1 raw=True list mixing ints and a float', False, F_raw_mixed)

def G_longdouble():
    LD = np.longdouble
    if np.finfo(LD).nmant < 63:
        return [0], [0], '(no extended precision on this platform)'
    v = LD(8) - LD(2) ** -58                                     # exactly 8 - 2**-58
    ex = F(8) - F(1, 2**58)
    a = Fxp(v, True, 8, 4, overflow='wrap', rounding='floor')
    b = Fxp(np.array([v]), True, 8, 4, overflow='wrap', rounding='floor')
    c = Fxp(np.array([v, v], dtype=object), True, 8, 4, overflow='wrap', rounding='floor')
    e = code(ex, True, 8, 4, 'floor')
    return raws(a) + raws(b) + raws(c), [e, e, e, e], '(scalar, 1-element longdouble array, object array)'
check('G1 np.longdouble scalar vs array', False, G_longdouble)

def H_decimal_string():
    s = '7.99999999999999999999'
    a = Fxp(s, True, 8, 4, overflow='wrap', rounding='floor')
    b = Fxp(Decimal(s), True, 8, 4, overflow='wrap', rounding='floor')
    e = code(F(s), True, 8, 4, 'floor')
    return raws(a) + raws(b), [e, e], '(str versus Decimal of the same digits)'
check('H1 decimal string of more than 17 digits', False, H_decimal_string)

def K_numpy_fallback():
    x = Fxp(2**20 + 2**-10, True, 32, 10)
    z = Fxp(None, True, 16, 20, overflow='wrap')
    v = value(x)[0]
    r1 = raws(np.square(x, out=z))
    a = Fxp([[2**20 + 2**-10]], True, 32, 10)
    r2 = raws(np.matmul(a, a, out=z)); r3 = raws(np.dot(a, a, out=z))
    return r1 + r2 + r3, [code(v * v, True, 16, 20)] * 3, '(np.square, np.matmul [not implemented: float64], np.dot [implemented])'
check('K1 np.square / np.matmul(x, out=wrap16/20)', False, K_numpy_fallback)

def I_clip_order():
    z = Fxp(None, True, 16, 4, overflow='wrap')
    r1 = raws(fxpmath.clip(Fxp([1, 100], True, 16, 0), a_max=3.75, out=z))
    r2 = raws(fxpmath.clip(Fxp([100, 1], True, 16, 0), a_max=3.75, out=z))
    return r1 + r2, [16, 60, 60, 16], '(same elements in two orders; not a wrap matter)'
check('I1 clip(x, a_max=3.75, out=) depends on element order', False, I_clip_order)

def J_sub_unsigned_array_op_out():
    x = Fxp(1, False, 8, 0); y = Fxp(3, False, 8, 0)
    z = Fxp(None, True, 8, 0, overflow='wrap')
    x.config.array_op_out = z
    r1 = raws(np.subtract(x, y))
    r2 = raws(fxpmath.sub(x, y, out=Fxp(None, True, 8, 0, overflow='wrap')))
    return r1 + r2, [-2, -2], '(np.subtract with config.array_op_out versus sub(out=): unsigned intermediate saturates at 0)'
check('J1 np.subtract(x, y) of unsigned operands into array_op_out', False, J_sub_unsigned_array_op_out)


# ================================================================ sanity: a few things that hold
def S_direct():
    out, exp = [], []
    for (s, w, f, r, v) in [(True, 8, 4, 'floor', F(-1025, 64)), (False, 5, -2, 'around', F(1234)), (True, 52, 60, 'ceil', F(3, 2**59)),
                            (True, 64, 0, 'trunc', F(2**200 + 12345)), (False, 256, 8, 'trunc', F(-(3**300)))]:
        inp = int(v) if v.denominator == 1 else float(v)
        out += raws(Fxp(inp, s, w, f, overflow='wrap', rounding=r)); exp.append(code(v, s, w, f, r))
    x = Fxp(2**20 + 2**-10, True, 32, 10); z = Fxp(None, True, 16, 20, overflow='wrap')
    out += raws(fxpmath.mul(x, x, out=z)); exp.append(1)
    return out, exp, '(direct writes, mul(out=))'
check('S0 sanity', False, S_direct)

sys.exit(1 if any(inside and not ok for inside, ok in results) else 0)
