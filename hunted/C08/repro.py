#!/usr/bin/env python
"""C08 bug-hunt reproducers.  fxpmath is imported from $FXP_REPO (default /tmp/wth-C08).
Every expected value is computed with Python integers / fractions.Fraction (exact), never with floats.
Exit code 1 if at least one violation reproduces, 0 otherwise."""
import os, sys, warnings
sys.path.insert(0, os.environ.get('FXP_REPO', '/tmp/wth-C08'))
warnings.simplefilter('ignore')
from fractions import Fraction as F
import numpy as np
from fxpmath import Fxp
import fxpmath.functions as fx

# ---------------------------------------------------------------- exact oracle (C01)
def rnd(q, mode):
    fl = q.numerator // q.denominator
    if q.denominator == 1: return fl
    if mode == 'floor': return fl
    if mode == 'ceil': return fl + 1
    if mode in ('trunc', 'fix'): return fl if q >= 0 else fl + 1
    if mode == 'around':
        r = q - fl
        if r != F(1, 2): return fl if r < F(1, 2) else fl + 1
        return fl if fl % 2 == 0 else fl + 1
    raise ValueError(mode)

def quant(v, signed, n_word, n_frac, rounding, overflow):
    """exact value v -> (code, overflow_flag, underflow_flag)"""
    k = rnd(F(v) * F(2) ** n_frac, rounding)
    mx = (1 << (n_word - 1)) - 1 if signed else (1 << n_word) - 1
    mn = -mx - 1 if signed else 0
    of, uf = k > mx, k < mn
    if overflow == 'saturate':
        k = max(mn, min(mx, k))
    else:
        k %= 1 << n_word
        if signed and k >= 1 << (n_word - 1): k -= 1 << n_word
    return k, of, uf

def code(z): return int(np.asarray(z.val).item(0))
def fmt(z): return (bool(z.signed), int(z.n_word), int(z.n_frac))
def exact(z): return F(code(z), 1) / F(2) ** z.n_frac

n_viol = 0
def verdict(title, bad, got, expected):
    global n_viol
    if bad:
        n_viol += 1
        print('VIOLATION %s: got %s expected %s' % (title, got, expected))
    else:
        print('ok        %s: got %s' % (title, got))

# ================================================================ finding 1
# a constant operand carried by a NumPy scalar / array on the LEFT of the operator bypasses
# op_input_size, const_op_sizing and the configuration of the Fxp operand
def finding1():
    for cname, c in (('np.float64', np.float64(2.125)), ('np.float32', np.float32(2.125)), ('0-d ndarray', np.array(2.125))):
        for opn, op in (('*', lambda a, b: a * b), ('+', lambda a, b: a + b), ('-', lambda a, b: a - b)):
            x = Fxp(2.0, True, 8, 2, rounding='around', overflow='wrap')   # default config: op_input_size='same', const_op_sizing='same'
            z = op(c, x)
            # the property: constant first converted like x (same policy): 2.125 -> code round(8.5)=8 (ties to even) -> 2.0
            kc, _, _ = quant(F(17, 8), True, 8, 2, 'around', 'wrap')
            cv = F(kc, 4)
            v = {'*': cv * 2, '+': cv + 2, '-': cv - 2}[opn]
            ek, eo, eu = quant(v, True, 8, 2, 'around', 'wrap')
            got = 'dtype=%s value=%s rounding/overflow=%s/%s' % (z.dtype, exact(z), z.config.rounding, z.config.overflow)
            exp = 'dtype=fxp-s8/2 value=%s rounding/overflow=around/wrap (what the plain Python float 2.125 gives)' % (F(ek, 4))
            bad = fmt(z) != (True, 8, 2) or code(z) != ek or (z.config.rounding, z.config.overflow) != ('around', 'wrap')
            verdict('F1 NumPy-carried constant on the left ignores the constant policies [%s %s x]' % (cname, opn), bad, got, exp)
    # reference: same constant as Python float, and NumPy scalar on the right, are fine
    x = Fxp(2.0, True, 8, 2, rounding='around', overflow='wrap')
    for label, z in (('2.125 * x', 2.125 * x), ('x * np.float64(2.125)', x * np.float64(2.125))):
        print('   (reference) %-24s -> %s %s' % (label, z.dtype, exact(z)))

# ================================================================ finding 2
# large dyadic constants (op_input_size='best'): the raw method scales by a float 2**-k, so sums / products that need
# more than 53 bits are rounded a first time (int64 -> float64) before the rounding of the target format
def finding2():
    # 2a  multiplication, const_op_sizing='largest', trunc/saturate, no overflow: off by one LSB
    c = 2.0**31 + 2.0**30 + 2.0**-11                 # dyadic, 43 significant bits, exact as a float
    for method in ('raw', 'repr'):
        x = Fxp(2047, True, 12, 11, raw=True, op_input_size='best', const_op_sizing='largest', op_method=method)  # 0.99951171875
        cf = Fxp(c); assert exact(cf) == F(c)       # the 'best' constant is exact: fxp-s44/11
        z = x * c
        ek, eo, eu = quant(F(2047, 2048) * F(c), *fmt(z), 'trunc', 'saturate')
        verdict('F2a x*c with a 43-bit dyadic constant, largest, trunc/saturate, method=%s' % method,
                code(z) != ek or fmt(z) != (True, 44, 11), '%s code %d flags %s/%s' % (z.dtype, code(z), z.status['overflow'], z.status['underflow']),
                'fxp-s44/11 code %d flags %s/%s' % (ek, eo, eu))
    # 2b  reflected subtraction c - x, const_op_sizing='same' (default), trunc/saturate (default), no overflow
    c = 2.0**48 + 0.25
    x = Fxp(1, False, 5, 5, raw=True, op_input_size='best')      # 1/32
    cf = Fxp(c); assert exact(cf) == F(c)
    z = c - x
    ek, eo, eu = quant(F(c) - F(1, 32), *fmt(z), z.config.rounding, z.config.overflow)
    verdict('F2b c - x with c = 2**48 + 0.25 (best), same sizing, trunc/saturate, raw',
            code(z) != ek, '%s code %d' % (z.dtype, code(z)), '%s code %d (flags %s/%s)' % (z.dtype, ek, eo, eu))
    # 2c  addition into an explicit out (fxp-s52/1), trunc/saturate, no overflow
    c = 2.0**49 + 0.5
    x = Fxp(1023, True, 12, 10, raw=True, op_input_size='best')   # 0.9990234375
    o = Fxp(None, True, 52, 1)
    x.config.op_out = o
    z = x + c
    ek, eo, eu = quant(F(c) + F(1023, 1024), True, 52, 1, 'trunc', 'saturate')
    verdict('F2c x + c into out=fxp-s52/1 with c = 2**49 + 0.5 (best), trunc/saturate, raw',
            code(z) != ek or z is not o, 'code %d' % code(z), 'code %d (flags %s/%s)' % (ek, eo, eu))
    # 2d  raw and repr disagree (same sizing, wrap)
    c = -1121609264722073.5
    res = {}
    for method in ('raw', 'repr'):
        x = Fxp(-397, True, 12, 7, raw=True, rounding='around', overflow='wrap', op_input_size='best', op_method=method)
        z = x - c
        res[method] = code(z)
    ek, eo, eu = quant(F(-397, 128) - F(c), True, 12, 7, 'around', 'wrap')
    verdict('F2d raw and repr methods disagree for x - c, c = -1121609264722073.5 (best), same, around/wrap',
            res['raw'] != res['repr'] or res['raw'] != ek, 'raw code %d, repr code %d' % (res['raw'], res['repr']), 'both code %d' % ek)

# ================================================================ finding 3 (borderline: target wider than C01's core domain)
def finding3():
    for tgt, ov in (((True, 64, 0), 'saturate'), ((True, 64, 0), 'wrap'), ((False, 64, 0), 'saturate'), ((True, 72, 8), 'saturate')):
        for kw in ('out', 'out_like'):
            x = Fxp(1, False, 4, 0); y = Fxp(2, False, 4, 0)
            o = Fxp(None, *tgt, overflow=ov)
            z = fx.sub(x, y, **{kw: o})
            ek, eo, eu = quant(F(-1), *tgt, 'trunc', ov)
            got = 'code %d flags %s/%s' % (code(z), z.status['overflow'], z.status['underflow'])
            exp = 'code %d flags %s/%s' % (ek, eo, eu)
            verdict('F3 unsigned 1 - 2 into %s=%s%d/%d %s' % (kw, 's' if tgt[0] else 'u', tgt[1], tgt[2], ov),
                    code(z) != ek or (bool(z.status['overflow']), bool(z.status['underflow'])) != (eo, eu), got, exp)

finding1()
finding2()
finding3()
print('%d violation(s) reproduced' % n_viol)
sys.exit(1 if n_viol else 0)
