#!/usr/bin/env python
"""C10 hunting round 2 - reproducers. fxpmath is imported from $FXP_REPO (default /repo).
Exit code 1 if any (non-borderline) violation reproduces, 0 otherwise. FXP_STRICT=1 also counts the borderline items."""
import os, sys, warnings
sys.path.insert(0, os.environ.get('FXP_REPO', '/repo'))
warnings.simplefilter('ignore')
import numpy as np
from fractions import Fraction as F
from fxpmath import Fxp

n_viol = 0
n_border = 0

def parts(y):
    a = np.asarray(y.val).flatten()
    return [(int(v.real), int(v.imag)) for v in a]

def wrap(code, signed, n_word):
    lo = -(1 << (n_word - 1)) if signed else 0
    return (code - lo) % (1 << n_word) + lo

def report(title, got, expected, borderline=False):
    global n_viol, n_border
    print('%s %s: got %s expected %s' % ('BORDERLINE-VIOLATION' if borderline else 'VIOLATION', title, got, expected))
    if borderline: n_border += 1
    else: n_viol += 1

def guarded(fn):
    try:
        return fn()
    except Exception as e:
        return e

# ---------------------------------------------------------------------------------------------------------
# F1: complex value, overflow='wrap', scaled code >= 2**63: every route stores 0 instead of the wrapped code
def f1():
    title = 'F1 complex source, wrap, code*2**shift >= 2**63 (s16/0 -> s52/50)'
    a = Fxp(8193 + 5j, True, 16, 0)                      # exact value 8193 + 5j
    exp = [(wrap(8193 << 50, True, 52), wrap(5 << 50, True, 52))]    # (2**50, 2**50)  i.e. value 1 + 1j
    mk = lambda: Fxp(None, True, 52, 50, overflow='wrap')
    def rs():
        b = a.deepcopy(); b.config.overflow = 'wrap'; b.resize(True, 52, 50); return b
    routes = {'Fxp(a, like=t)': lambda: Fxp(a, like=mk()), 'a.like(t)': lambda: a.like(mk()),
              'Fxp(a,True,52,50,overflow=wrap)': lambda: Fxp(a, True, 52, 50, overflow='wrap'),
              't.set_val(a)': lambda: mk().set_val(a), 't.equal(a)': lambda: mk().equal(a), 'a.resize': rs}
    for name, fn in routes.items():
        y = guarded(fn)
        got = y if isinstance(y, Exception) else parts(y)
        if got != exp:
            report(title + ' [' + name + ']', got, exp)
    # the real route is right (shows the complex branch alone is at fault)
    r = Fxp(Fxp(8193, True, 16, 0), like=mk())
    assert int(r.val) == 1 << 50

# ---------------------------------------------------------------------------------------------------------
# F2: complex source converted into an object made from a real template (Fxp(None, ...)): the routes disagree,
#     the result reads back without imaginary part and the next conversion drops it from the stored codes
def f2():
    title = 'F2 complex source, destination/template created with val=None'
    a = Fxp([1 + 2j, 2 - 1j, 0.5j], True, 8, 3)
    t = Fxp(None, True, 10, 4)
    u = Fxp(None, True, 12, 5)
    exp_val = [1 + 2j, 2 - 1j, 0.5j]
    exp2 = [(32, 64), (64, -32), (0, 16)]
    routes = {'Fxp(a, like=t)': lambda: Fxp(a, like=t), 'a.like(t)': lambda: a.like(t),
              't.set_val(a)': lambda: t.deepcopy().set_val(a), 't.equal(a)': lambda: t.deepcopy().equal(a),
              'Fxp(a, True, 10, 4)': lambda: Fxp(a, True, 10, 4)}
    for name, fn in routes.items():
        y = guarded(fn)
        if isinstance(y, Exception):
            report(title + ' [' + name + ']', repr(y), exp_val); continue
        gv = guarded(lambda: [complex(v) for v in np.asarray(y.get_val()).flatten()])
        if gv != exp_val:
            report(title + ' [' + name + '] value read back (get_val)', gv, exp_val)
        z = guarded(lambda: Fxp(y, like=u))       # second conversion of the history
        got = z if isinstance(z, Exception) else parts(z)
        if got != exp2:
            report(title + ' [' + name + ' then Fxp(y, like=u)] stored codes', got, exp2)
    # negative n_frac template (vdtype int): the value cannot even be read
    y = a.like(Fxp(None, True, 10, -1))
    gv = guarded(lambda: [complex(v) for v in np.asarray(y.get_val()).flatten()])
    if gv != [2j, 2 + 0j, 0j]:
        report(title + ' [a.like(Fxp(None,True,10,-1)).get_val()]', repr(gv), '[2j, (2+0j), 0j] (1+2j, 2-1j, 0.5j truncated to multiples of 2)')

# ---------------------------------------------------------------------------------------------------------
# F3: element of a complex object whose vdtype is None (result of arithmetic, or of the constructor route)
#     is a "real" Fxp: indexed assignment of that element drops the imaginary part
def f3():
    title = 'F3 indexed assignment of an element of a complex result'
    a = Fxp([1 + 2j, 2 - 1j], True, 8, 3)
    for name, z in (('z = a*a', a * a), ('z = Fxp(a, True, 12, 4)', Fxp(a, True, 12, 4))):
        zv = [complex(v) for v in np.asarray(z.get_val()).flatten()]
        d = Fxp(np.zeros(2, dtype=complex), True, 16, 4)
        r = guarded(lambda: d.__setitem__(0, z[0]))
        got = r if isinstance(r, Exception) else complex(d.get_val()[0])
        if got != zv[0]:
            report(title + ' [' + name + '; d[0] = z[0]]', got, zv[0])
        d2 = Fxp(np.zeros(2, dtype=complex), True, 16, 4)
        d2[...] = z                                  # whole-array assignment is right
        assert [complex(v) for v in d2.get_val()] == zv

# ---------------------------------------------------------------------------------------------------------
# B1 (borderline): indexed assignment into a 0-d complex destination raises (works for a 0-d real one)
def b1():
    title = 'B1 d[...] = x on a scalar complex destination'
    d = Fxp(0j, True, 8, 2)
    x = Fxp(1.5 - 0.5j, True, 8, 3)
    r = guarded(lambda: d.__setitem__(Ellipsis, x))
    got = repr(r) if isinstance(r, Exception) else parts(d)
    if got != [(6, -2)]:
        report(title, got, [(6, -2)], borderline=True)
    dr = Fxp(0.0, True, 8, 2); dr[...] = Fxp(1.5, True, 8, 3); assert int(dr.val) == 6

# ---------------------------------------------------------------------------------------------------------
# B2 (borderline, scaled objects): resize() of a scaled object goes through float64 values, other routes copy codes
def b2():
    title = 'B2 resize of a scaled object (bias=65536) to a wider word, same n_frac'
    x = Fxp(None, True, 40, 38, bias=65536)
    x.set_val(np.array([1, 3, (1 << 38) + 5]), raw=True)
    y = x.deepcopy(); y.resize(True, 42, 38)
    got = [int(v) for v in y.val]
    exp = [1, 3, (1 << 38) + 5]
    if got != exp or y.status['underflow']:
        report(title, (got, 'underflow=%s' % y.status['underflow']), (exp, 'underflow=False'), borderline=True)
    t = Fxp(None, True, 42, 38, bias=65536)
    assert [int(v) for v in x.like(t).val] == exp and [int(v) for v in Fxp(x, like=t).val] == exp

# ---------------------------------------------------------------------------------------------------------
# B3 (borderline): the Q-notation dtype string of a format with n_frac > n_word is rejected by resize(dtype=) / Fxp(dtype=)
def b3():
    title = 'B3 resize(dtype=t.get_dtype("Q")) for n_frac > n_word'
    t = Fxp(None, True, 4, 6)
    x = Fxp(0.03125, True, 8, 7)
    def go():
        y = x.deepcopy(); y.resize(dtype=t.get_dtype('Q')); return (y.dtype, int(y.val))
    r = guarded(go)
    if r != ('fxp-s4/6', 2):
        report(title, repr(r), ('fxp-s4/6', 2), borderline=True)

for fn in (f1, f2, f3, b1, b2, b3):
    try:
        fn()
    except Exception as e:
        print('ERROR in %s: %r' % (fn.__name__, e))

print('violations: %d, borderline: %d' % (n_viol, n_border))
strict = os.environ.get('FXP_STRICT', '') not in ('', '0')
sys.exit(1 if (n_viol or (strict and n_border)) else 0)
