#!/usr/bin/env python
"""
C16 hunt (round 3) - re-check of every finding with an exact oracle (Python ints / fractions.Fraction only).
Prints one line per finding starting with "VIOLATION" or "holds".
Exit status 1 if a clearly-inside finding (F1a / F1b / F1c) is violated, else 0.
"""
import os, sys, operator, warnings
sys.path.insert(0, os.environ.get('FXP_REPO', '/repo'))
import numpy as np
from fractions import Fraction as F
import fxpmath
from fxpmath import Fxp

warnings.simplefilter('ignore')
Fxp.template = None

OPS = [('<', operator.lt, np.less), ('<=', operator.le, np.less_equal), ('==', operator.eq, np.equal),
       ('!=', operator.ne, np.not_equal), ('>', operator.gt, np.greater), ('>=', operator.ge, np.greater_equal)]


def exact(x):
    """exact stored value of a (size-1) Fxp: code * 2**-n_frac as a Fraction"""
    code = int(np.asarray(x.val).reshape(-1)[0])
    return F(code) * F(2) ** (-x.n_frac)


def as_frac(p):
    if isinstance(p, Fxp):
        return exact(p)
    if isinstance(p, np.generic):
        p = p.item()
    return F(p)


def run(label, inside, x, y, forms):
    """forms: 'op' (Python operator) and / or 'uf' (NumPy ufunc form np.less(x, y) ...)"""
    ex, ey = as_frac(x), as_frac(y)
    wrong = []
    for sym, op, uf in OPS:
        want = op(ex, ey)
        for form in forms:
            try:
                got = op(x, y) if form == 'op' else uf(x, y)
                got_b = bool(np.asarray(got).reshape(-1)[0])
                if got_b != want or np.asarray(got).dtype != bool:
                    wrong.append('%s%s: got %s, exact %s' % ('' if form == 'op' else 'np.', sym if form == 'op' else uf.__name__, got_b, want))
            except Exception as e:
                wrong.append('%s%s: raised %s (%s), exact %s' % ('' if form == 'op' else 'np.', sym if form == 'op' else uf.__name__, type(e).__name__, str(e)[:50], want))
    tag = 'INSIDE' if inside else 'BORDERLINE'
    if wrong:
        short = lambda v: str(v) if len(str(v)) < 40 else '2**%d' % (v.numerator.bit_length() - 1)
        print('VIOLATION %s [%s] x=%s y=%s : %s' % (label, tag, short(ex), short(ey), '; '.join(wrong)))
    else:
        print('holds     %s [%s]' % (label, tag))
    return bool(wrong)


fail_inside = False

# ---------------------------------------------------------------------------------------------------------------------
# F1  NumPy-dispatch form of the comparisons (np.less(x, y), ...) compares raw codes when config.array_op_method='raw'
# ---------------------------------------------------------------------------------------------------------------------
x = Fxp(0.75, True, 8, 4, array_op_method='raw')      # code 12, value 3/4
y = Fxp(1.0, True, 8, 2)                              # code  4, value 1
assert exact(x) == F(3, 4) and exact(y) == 1
# control: the Python operators on the very same objects are right
run('F1-control  x < y ... (operators, same objects)', True, x, y, ['op'])
fail_inside |= run('F1a np.less(x, y) ... two Fxp, first has array_op_method="raw"', True, x, y, ['uf'])
fail_inside |= run('F1b np.less(x, 1.0) ... Fxp against a plain number, array_op_method="raw"', True, x, 1.0, ['uf'])
x2 = Fxp(0.75, True, 8, 4)                            # default configuration
y2 = Fxp(0.5, True, 8, 2, array_op_method='raw')      # code 2, value 1/2; only the SECOND operand is 'raw'
fail_inside |= run('F1c np.less(x, y) ... default-config first operand, second has array_op_method="raw"', True, x2, y2, ['uf'])
# inherited configuration: the result of an operator carries the configuration of its first operand
z = Fxp(0.25, True, 8, 4, array_op_method='raw') + Fxp(0.5, True, 8, 4)     # value 3/4, n_frac 4
fail_inside |= run('F1d np.less(x + w, y) ... configuration inherited by an operator result', True, z, y, ['uf'])

# ---------------------------------------------------------------------------------------------------------------------
# F2  (BORDERLINE) float-valued object against a Python / NumPy integer beyond 2**53: answer depends on the value type
# ---------------------------------------------------------------------------------------------------------------------
xi = Fxp(2**53, False, 24, -30)             # value type int   -> exact comparison
xf = Fxp(float(2**53), False, 24, -30)      # value type float -> same format, same code
assert int(xi.val) == int(xf.val) == 2**23 and xi.dtype == xf.dtype
run('F2-control  int-valued   fxp-u24/-30 value 2**53 against 2**53+1', False, xi, 2**53 + 1, ['op'])
run('F2a float-valued fxp-u24/-30 value 2**53 against the Python int 2**53+1', False, xf, 2**53 + 1, ['op'])
run('F2b float-valued fxp-u24/-30 value 2**53 against np.int64(2**53+1)', False, xf, np.int64(2**53 + 1), ['op'])
xi.set_val(float(2**53))                    # the same object after a later float write: history dependence
run('F2c same object as F2-control after set_val(float(2**53))', False, xi, 2**53 + 1, ['op'])

# ---------------------------------------------------------------------------------------------------------------------
# F3  (BORDERLINE) float-valued object against a Python int beyond the double range: raises instead of answering
# ---------------------------------------------------------------------------------------------------------------------
run('F3 Fxp(1.0, True, 8, 4) against 2**1100', False, Fxp(1.0, True, 8, 4), 2**1100, ['op'])

# ---------------------------------------------------------------------------------------------------------------------
# F4  (BORDERLINE, n_frac outside -1..n_word+1) astype(int) / int() raise for n_frac >= 63
# ---------------------------------------------------------------------------------------------------------------------
w = Fxp(-3, True, 8, 63, raw=True)
want = exact(w).numerator // exact(w).denominator      # floor = -1
msgs = []
for name, f in (('astype(int)', lambda: int(np.asarray(w.astype(int)).reshape(-1)[0])), ('int()', lambda: int(w))):
    try:
        got = f()
        if got != want:
            msgs.append('%s: got %s, exact %s' % (name, got, want))
    except Exception as e:
        msgs.append('%s: raised %s (%s), exact floor %s' % (name, type(e).__name__, str(e)[:50], want))
print(('VIOLATION ' if msgs else 'holds     ') + 'F4 [BORDERLINE] fxp-s8/63 code -3 : ' + '; '.join(msgs))

sys.exit(1 if fail_inside else 0)
