#!/usr/bin/env python
"""Re-checks the C01 findings of hunt 3 against an exact oracle (Python ints / fractions.Fraction).

One line per finding, starting with "VIOLATION" or "holds".
Exit status 1 if a clearly-inside finding (F1, F2) is violated, else 0.
"""
import os, sys, math, warnings
sys.path.insert(0, os.environ.get('FXP_REPO', '/repo'))
warnings.filterwarnings('ignore')
from fractions import Fraction as F
from decimal import Decimal
import numpy as np
from fxpmath import Fxp


# ---------------------------------------------------------------- exact oracle
def rnd(q, method):
    if method in ('trunc', 'fix'): return math.trunc(q)
    if method == 'floor': return math.floor(q)
    if method == 'ceil': return math.ceil(q)
    if method == 'around': return round(q)          # Fraction.__round__: ties to even
    raise ValueError(method)

def ovf(c, signed, n_word, overflow):
    lo, hi = (-(1 << (n_word - 1)), (1 << (n_word - 1)) - 1) if signed else (0, (1 << n_word) - 1)
    if overflow == 'saturate':
        return max(lo, min(hi, c))
    c %= (1 << n_word)
    return c - (1 << n_word) if (signed and c > hi) else c

def code(v, signed, n_word, n_frac, rounding='trunc', overflow='saturate'):
    return ovf(rnd(F(v) * F(2) ** n_frac, rounding), signed, n_word, overflow)

def ldF(v):
    return F(*np.longdouble(v).as_integer_ratio())

def codes(x):
    return [int(c.real) for c in np.asarray(x.val).flatten().tolist()]

def obj(*v):
    return np.array(list(v) + [None], dtype=object)[:-1]


results = []     # (inside?, violated?)
def check(tag, inside, desc, fn, expected):
    try:
        got = fn()
    except Exception as e:          # an exception is a failure to store the value
        got = 'raised %s: %s' % (type(e).__name__, e)
    bad = got != expected
    results.append((inside, bad))
    print('%s %s [%s] %s: library %s, exact %s' % ('VIOLATION' if bad else 'holds', tag,
          'inside' if inside else 'BORDERLINE', desc, got, expected))


ld = np.longdouble
HAS_LD = np.finfo(ld).nmant > 52          # (on platforms where longdouble is float64 F1 cannot show)

# ---------------------------------------------------------------- F1: np.longdouble scalar
if HAS_LD:
    v = ld(2.5) + ld(2) ** -60                      # 2.5 + 2^-60, exactly representable, |v| < 2^53
    e = code(ldF(v), True, 8, 0, 'around')          # = 3
    check('F1a', True, "Fxp(np.longdouble(2.5+2^-60), s8/0, around) scalar",
          lambda: codes(Fxp(v, True, 8, 0, rounding='around')), [e])
    check('F1a-ref', True, "same value as a 1-element longdouble array",
          lambda: codes(Fxp(np.array([v]), True, 8, 0, rounding='around')), [e])
    w = ld(1) + ld(2) ** -60
    e = code(ldF(w), True, 8, 0, 'ceil')            # = 2
    check('F1b', True, "x[0] = np.longdouble(1+2^-60), s8/0, ceil (indexed assignment)",
          lambda: (lambda x: (x.__setitem__(0, w), codes(x))[1])(Fxp([0.0, 0.0], True, 8, 0, rounding='ceil')), [e, 0])
    u = -(ld(3) + ld(2) ** -55)
    e = code(ldF(u), True, 16, 4, 'floor')          # = -49
    check('F1c', True, "x.set_val(np.longdouble(-(3+2^-55))), s16/4, floor",
          lambda: codes(Fxp(None, True, 16, 4, rounding='floor').set_val(u)), [e])
else:
    print('holds F1 [inside] skipped: np.longdouble is float64 on this platform')

# ---------------------------------------------------------------- F2: decimal strings
s = '0.14'
e = code(F(Decimal(s)), True, 52, 53, 'trunc')      # 1261007895663738 (no overflow)
check('F2a', True, "Fxp('0.14', s52/53, trunc)", lambda: codes(Fxp(s, True, 52, 53)), [e])
check('F2a-ref', True, "Fxp(Decimal('0.14'), s52/53, trunc)", lambda: codes(Fxp(Decimal(s), True, 52, 53)), [e])
s2 = '2.5000000000000000001'
e = code(F(Decimal(s2)), True, 8, 0, 'around')      # 3
check('F2b', True, "Fxp('2.5000000000000000001', s8/0, around)", lambda: codes(Fxp(s2, True, 8, 0, rounding='around')), [e])
check('F2c', True, "x[:] = ['2.5000000000000000001', '1'] (indexed assignment, list of strings), s8/0 around",
      lambda: (lambda x: (x.__setitem__(slice(None), [s2, '1']), codes(x))[1])(Fxp([0.0, 0.0], True, 8, 0, rounding='around')), [e, 1])
s3 = '1e-400'
e = code(F(Decimal(s3)), True, 8, 0, 'ceil')        # 1
check('F2d', True, "Fxp('1e-400', s8/0, ceil)", lambda: codes(Fxp(s3, True, 8, 0, rounding='ceil')), [e])
s4 = '0.1'
e = code(F(Decimal(s4)), False, 52, 60, 'trunc', 'wrap')
check('F2e', True, "Fxp('0.1', u52/60, trunc, wrap)", lambda: codes(Fxp(s4, False, 52, 60, overflow='wrap')), [e])

# ---------------------------------------------------------------- F3: object arrays, type of element 0 decides (BORDERLINE)
check('F3a', False, "Fxp(object array [np.uint8(1), np.int8(-3)], s16/0)",
      lambda: codes(Fxp(obj(np.uint8(1), np.int8(-3)), True, 16, 0)), [1, -3])
check('F3a-ref', False, "same elements in the other order",
      lambda: codes(Fxp(obj(np.int8(-3), np.uint8(1)), True, 16, 0)), [-3, 1])
check('F3b', False, "Fxp(object array [np.int8(100)], s16/4)",
      lambda: codes(Fxp(obj(np.int8(100)), True, 16, 4)), [code(100, True, 16, 4)])
check('F3c', False, "Fxp(object array [np.int16(1), 70000], s32/0)",
      lambda: codes(Fxp(obj(np.int16(1), 70000), True, 32, 0)), [1, 70000])
def _f3d():
    x = Fxp(obj(np.float32(-0.375)), False, 40, 1, rounding='floor', overflow='wrap')
    return [codes(x), [F(float(t)) for t in np.asarray(x.get_val()).flatten()]]
e = code(F(-3, 8), False, 40, 1, 'floor', 'wrap')
check('F3d', False, "object array [np.float32(-0.375)], u40/1 floor wrap: code and value read back",
      _f3d, [[e], [F(e, 2)]])
if HAS_LD:
    v = ld(2.5) + ld(2) ** -60
    check('F3e', False, "object array [np.longdouble(2.5+2^-60), 1.0], s8/0 around",
          lambda: codes(Fxp(obj(v, 1.0), True, 8, 0, rounding='around')), [3, 1])

# ---------------------------------------------------------------- F4: complex written by index into a real array (BORDERLINE)
def _f4():
    x = Fxp([1.0, 2.0], True, 8, 2)
    x[0] = 1.5 + 0.25j
    v = np.asarray(x.val)
    return [(int(t.real), int(t.imag)) for t in v.flatten().tolist()]
check('F4', False, "x = Fxp([1.,2.], s8/2); x[0] = 1.5+0.25j  (re, im) codes",
      _f4, [(code(F(3, 2), True, 8, 2), code(F(1, 4), True, 8, 2)), (8, 0)])

# ---------------------------------------------------------------- F5: Python bool (an int) (BORDERLINE)
check('F5', False, "Fxp(True, s8/2)", lambda: codes(Fxp(True, True, 8, 2)), [code(1, True, 8, 2)])

sys.exit(1 if any(inside and bad for inside, bad in results) else 0)
