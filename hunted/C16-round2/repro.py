import os, sys
sys.path.insert(0, os.environ.get('FXP_REPO', '/repo'))
import numpy as np
from fxpmath import Fxp

viol = 0
def report(title, got, exp):
    global viol
    viol += 1
    print('VIOLATION {}: got {} expected {}'.format(title, got, exp))

def run(f):
    try:
        return f()
    except Exception as e:
        return 'EXC ' + type(e).__name__

# F1: NumPy number / array on the left, config.array_op_method='raw' -> compared with the raw code
x = Fxp(1.5, True, 8, 2, array_op_method='raw')      # code 6, value 1.5
for name, f, exp in [
    ('np.float64(2) < x',  lambda: np.float64(2) < x,  False),
    ('np.float64(2) > x',  lambda: np.float64(2) > x,  True),
    ('np.float64(1.5) == x', lambda: np.float64(1.5) == x, True),
    ('np.int8(6) != x',    lambda: np.int8(6) != x,    True),
    ('np.array([1., 2.]) >= x', lambda: (np.array([1., 2.]) >= x).tolist(), [False, True]),
]:
    got = run(f)
    if isinstance(got, np.generic): got = got.item()
    if got != exp:
        report('F1 raw-config reflected comparison ' + name, got, exp)

# F2: value >= 2**53 (negative n_frac, n_word <= 24) against a Python / NumPy integer that is not a double
x = Fxp(1 << 22, True, 24, -31, raw=True)             # exact value 2**53
for name, f, exp in [
    ('x == 2**53+1', lambda: x == 2**53 + 1, False),
    ('x <  2**53+1', lambda: x < 2**53 + 1, True),
    ('x >= 2**53+1', lambda: x >= 2**53 + 1, False),
    ('x != np.int64(2**53+1)', lambda: x != np.int64(2**53 + 1), True),
    ('Fxp([..]) < 2**53+1', lambda: (Fxp([1 << 22], True, 24, -31, raw=True) < 2**53 + 1).tolist(), [True]),
]:
    got = run(f)
    if isinstance(got, np.generic): got = got.item()
    if got != exp:
        report('F2 big-int comparison ' + name, got, exp)

# B1 (outside the conversion quantifier: n_frac >= 63): astype(int)/int() raise instead of floor
x = Fxp(-3, True, 8, 63, raw=True)
got = run(lambda: int(x))
if got != -1: report('B1 int() with n_frac=63', got, -1)
got = run(lambda: int(np.asarray(x.astype(int))))
if got != -1: report('B1 astype(int) with n_frac=63', got, -1)

# B2 (outside: n_word=63): uraw() raises
got = run(lambda: int(Fxp(-1, True, 63, 0, raw=True).uraw()))
if got != 2**63 - 1: report('B2 uraw() signed n_word=63', got, 2**63 - 1)

# B3 (plain number beyond the double range): comparison raises
got = run(lambda: bool(Fxp(0.5, True, 8, 2) < 10**400))
if got is not True: report('B3 x < 10**400', got, True)

sys.exit(1 if viol else 0)
