#!/usr/bin/env python
"""C17 (scale / bias exact affine wrapper) - reproducers.  Exit code 1 if any violation reproduces."""
import os, sys, warnings
sys.path.insert(0, os.environ.get('FXP_REPO', '/tmp/wth-C17'))
warnings.simplefilter('ignore')
from fractions import Fraction as F
import numpy as np
from fxpmath import Fxp

FLAGS = ('overflow', 'underflow', 'inaccuracy')
ROUND = {
    'floor': lambda q: q.numerator // q.denominator,
    'ceil': lambda q: -((-q.numerator) // q.denominator),
    'trunc': lambda q: int(q), 'fix': lambda q: int(q),
    'around': lambda q: (lambda fl, r: fl + (1 if r > F(1, 2) or (r == F(1, 2) and fl % 2) else 0))(q.numerator // q.denominator, q - q.numerator // q.denominator),
}

def oracle(v, s, b, signed, nw, nf, rounding='trunc', overflow='saturate'):
    """exact model: code, flags and read-back value of storing v into a (s, b) scaled format"""
    u = (F(v) - F(b)) / F(s)
    k = ROUND[rounding](u * F(2) ** nf)
    lo, hi = (-(1 << (nw - 1)), (1 << (nw - 1)) - 1) if signed else (0, (1 << nw) - 1)
    ovf, unf = k > hi, k < lo
    if overflow == 'saturate':
        c = min(max(k, lo), hi)
    else:
        c = (k - lo) % (1 << nw) + lo
    inacc = F(c) / F(2) ** nf != u
    return c, dict(overflow=ovf, underflow=unf, inaccuracy=inacc), F(c) / F(2) ** nf * F(s) + F(b)

def read(c, s, b, nf):
    return F(int(c)) / F(2) ** nf * F(s) + F(b)

n_viol = 0
def report(title, got, exp):
    global n_viol
    n_viol += 1
    print('VIOLATION {}: got {} expected {}'.format(title, got, exp))

def observe(make):
    try:
        x = make()
        return ('codes', [int(c) for c in np.asarray(x.val).ravel()],
                'flags', {k: bool(x.status[k]) for k in FLAGS},
                'read', [F(float(g)) for g in np.asarray(x.get_val()).ravel()])
    except Exception as e:
        return ('EXC', type(e).__name__, str(e))

def check_store(title, make, vals, s, b, signed, nw, nf, rounding='trunc', overflow='saturate'):
    cs, fl, rd = [], {k: False for k in FLAGS}, []
    for v in vals:
        c, f, r = oracle(v, s, b, signed, nw, nf, rounding, overflow)
        cs.append(c); rd.append(r)
        for k in FLAGS: fl[k] = fl[k] or f[k]
    exp = ('codes', cs, 'flags', fl, 'read', rd)
    got = observe(make)
    if got != exp:
        fmt = lambda t: t if t[0] == 'EXC' else (t[0], t[1], t[2], {k: v for k, v in t[3].items() if v}, t[4], [float(q) for q in t[5]])
        report(title, fmt(got), fmt(exp))

# ---------------------------------------------------------------- F1: bias removed in the carrier's NumPy dtype
check_store('F1a uint8 ndarray, bias=3: (v-b) wraps modulo 256',
            lambda: Fxp(np.array([1, 2], dtype=np.uint8), True, 16, 4, bias=3), [1, 2], 1, 3, True, 16, 4)
check_store('F1b uint64 ndarray, scale=2, bias=3: (v-b) wraps modulo 2**64, spurious overflow',
            lambda: Fxp(np.array([1, 2], dtype=np.uint64), True, 16, 4, scale=2, bias=3), [1, 2], 2, 3, True, 16, 4)
check_store('F1c np.uint16 scalar, bias=32 into unsigned wrap format: overflow raised instead of underflow',
            lambda: Fxp(np.uint16(17), False, 9, 0, bias=32, overflow='wrap'), [17], 1, 32, False, 9, 0, 'trunc', 'wrap')
check_store('F1d int16 ndarray 30000, bias=-10000: (v-b)=40000 wraps to -25536, overflow not flagged',
            lambda: Fxp(np.array([30000], dtype=np.int16), True, 16, 0, bias=-10000), [30000], 1, -10000, True, 16, 0)
check_store('F1e int8 ndarray, bias=-14 (all exact, in range): wraps, spurious underflow',
            lambda: Fxp(np.array(124, dtype=np.int8), False, 15, 4, bias=-14), [124], 1, -14, False, 15, 4)
check_store('F1f uint8 ndarray, bias=-5 (Python int not representable in carrier dtype): raises',
            lambda: Fxp(np.array([232], dtype=np.uint8), True, 16, 2, bias=-5), [232], 1, -5, True, 16, 2)
check_store('F1g int8 ndarray, bias=200: raises',
            lambda: Fxp(np.array([100], dtype=np.int8), True, 16, 2, bias=200), [100], 1, 200, True, 16, 2)
check_store('F1h float32 scalar, float bias: (v-b) rounded to float32, ceil and inaccuracy lost',
            lambda: Fxp(np.float32(2.0 ** -20), True, 16, 0, bias=-1024.0, rounding='ceil'), [F(1, 2 ** 20)], 1, -1024, True, 16, 0, 'ceil')
check_store('F1i float16 ndarray, int bias: (v-b) rounded to float16',
            lambda: Fxp(np.array([-3.625], dtype=np.float16), True, 16, 4, bias=-268), [F(-29, 8)], 1, -268, True, 16, 4)
check_store('F1j list of np.uint64 scalars, scale=2: transformed value cast to uint64 (1.5 -> 1, no inaccuracy)',
            lambda: Fxp([np.uint64(3), np.uint64(3)], True, 16, 4, scale=2), [3, 3], 2, 0, True, 16, 4)
check_store('F1k list of np.uint64 scalars, negative transformed value cast to uint64: overflow instead of underflow',
            lambda: Fxp([np.uint64(148)], True, 9, 2, scale=-0.25, bias=107.0), [148], F(-1, 4), 107, True, 9, 2)

# ---------------------------------------------------------------- F2: unsigned integer-valued object with negative integer bias
check_store('F2a Fxp(20, unsigned 8/0, bias=-16): constructor raises OverflowError',
            lambda: Fxp(20, False, 8, 0, bias=-16), [20], 1, -16, False, 8, 0)
check_store('F2b Fxp([4, 200], unsigned 8/0, bias=-16): constructor raises OverflowError',
            lambda: Fxp([4, 200], False, 8, 0, bias=-16), [4, 200], 1, -16, False, 8, 0)
check_store('F2c Fxp(None, unsigned 8/0, bias=-16): constructor raises OverflowError',
            lambda: Fxp(None, False, 8, 0, bias=-16), [0], 1, -16, False, 8, 0)
try:
    g = Fxp(4.0, False, 8, 0, bias=-16).astype(int)          # float read works, integer read: uint64 code + (-16)
    if F(int(g)) != 4: report('F2d astype(int) of unsigned 8/0 object holding 4.0 with bias=-16', g, 4)
except Exception as e:
    report('F2d astype(int) of unsigned 8/0 object holding 4.0 with bias=-16 raises', (type(e).__name__, str(e)), 4)

# ---------------------------------------------------------------- F3: a raw / Fxp-valued write switches the affine map off
def lim(x):
    return (F(x.upper), F(x.lower), F(x.precision))
def explim(signed, nw, nf, s, b):
    lo, hi = (-(1 << (nw - 1)), (1 << (nw - 1)) - 1) if signed else (0, (1 << nw) - 1)
    return (F(hi) / F(2) ** nf * s + b, F(lo) / F(2) ** nf * s + b, F(s) / F(2) ** nf)

x = Fxp([3.0, 5.0], True, 16, 4, scale=2, bias=1)
x[0] = Fxp(7.0, True, 16, 4)            # write ONE element from another Fxp
got = [F(float(g)) for g in x.get_val()]
exp = [read(c, 2, 1, 4) for c in x.val]
if got != exp:
    report('F3a x[0] = Fxp(...) on a scaled array: untouched element x[1] (code 32) no longer reads s*code*2^-nf+b',
           [float(g) for g in got], [float(e) for e in exp])

x = Fxp(3.0, True, 16, 4, scale=2, bias=1)
x.set_val(16, raw=True)
if F(float(x.get_val())) != read(16, 2, 1, 4):
    report('F3b read after set_val(16, raw=True) on scale=2,bias=1 object', x.get_val(), float(read(16, 2, 1, 4)))
x.resize(True, 12, 4)
if lim(x) != explim(True, 12, 4, 2, 1):
    report('F3c upper/lower/precision after raw write + resize are the unscaled ones', [float(q) for q in lim(x)], [float(q) for q in explim(True, 12, 4, 2, 1)])

x = Fxp(16, True, 16, 4, scale=2, bias=1, raw=True)
if F(float(x.get_val())) != read(16, 2, 1, 4):
    report('F3d Fxp(16, raw=True, scale=2, bias=1) reads unscaled (while upper/lower are scaled: upper={})'.format(x.upper), x.get_val(), float(read(16, 2, 1, 4)))

x = Fxp(3.0, True, 16, 4, scale=2, bias=1)
x.equal(Fxp(5.0, True, 16, 4))
if F(float(x.get_val())) != read(int(x.val), 2, 1, 4):
    report('F3e read after x.equal(Fxp) on scaled object (code {})'.format(int(x.val)), x.get_val(), float(read(int(x.val), 2, 1, 4)))

# ---------------------------------------------------------------- borderline (reported separately, still counted)
x = Fxp(3.0, False, 8, 4, scale=2)
if F(int(x.astype(int))) != 3:
    print('BORDERLINE B1 astype(int) floors code*2^-nf before the affine map: value 3.0 (code 24, scale 2) ->', x.astype(int), 'int(x) ->', int(x))
p = Fxp(None, True, 16, 4)
x = Fxp(3.0, like=p, scale=2, bias=1)
if x.scale != 2 or int(x.val) != 16:
    print('BORDERLINE B2 Fxp(3.0, like=<unscaled>, scale=2, bias=1) ignores scale/bias: scale', x.scale, 'bias', x.bias, 'code', x.val, '(expected code 16)')

print('{} violation(s)'.format(n_viol))
sys.exit(1 if n_viol else 0)
