import os, sys, math, warnings
sys.path.insert(0, os.environ.get('FXP_REPO', '/repo'))
warnings.simplefilter('ignore')
import numpy as np
from fractions import Fraction
from fxpmath import Fxp

def oracle(v, signed, n_word, n_frac, rounding, overflow):
    """exact OVERFLOW(ROUND(v * 2**n_frac)); v is a Fraction"""
    q = Fraction(v) * Fraction(2) ** n_frac
    c = {'trunc': math.trunc, 'fix': math.trunc, 'floor': math.floor, 'ceil': math.ceil, 'around': round}[rounding](q)
    lo = -(1 << (n_word - 1)) if signed else 0
    hi = (1 << (n_word - 1)) - 1 if signed else (1 << n_word) - 1
    if overflow == 'saturate':
        return max(lo, min(hi, c))
    c %= 1 << n_word
    if signed and c >= 1 << (n_word - 1):
        c -= 1 << n_word
    return c

def ld_frac(x):
    m, e = np.frexp(np.longdouble(x))
    return Fraction(int(m * np.longdouble(2) ** 64)) * Fraction(2) ** (int(e) - 64)

def codes(x):
    return [(int(c.real), int(c.imag)) if isinstance(c, complex) else int(c)
            for c in np.asarray(x.val).flatten().tolist()]

n_viol = 0
def check(title, got, expected):
    global n_viol
    if got != expected:
        n_viol += 1
        print('VIOLATION %s: got %s expected %s' % (title, got, expected))
    else:
        print('ok        %s: %s' % (title, got))

def run(title, f, expected):
    try:
        got = f()
    except Exception as e:
        got = 'EXC ' + repr(e)
    check(title, got, expected)

# ---- F1: complex64 carrier, saturate: stored code is val_max+1 (outside the word)
a = np.array([0.5 + 0j, 200.0 + 0j], dtype=np.complex64)
exp = [(oracle(Fraction(float(z.real)), True, 30, 23, 'trunc', 'saturate'),
        oracle(Fraction(float(z.imag)), True, 30, 23, 'trunc', 'saturate')) for z in a]
run('F1a complex64 array saturates to val_max+1 (s30/23)', lambda: codes(Fxp(a, True, 30, 23)), exp)
run('F1b complex64 scalar saturates to val_max+1 (s32/0)', lambda: codes(Fxp(np.complex64(1 + 3e9j), True, 32, 0)),
    [(1, 2**31 - 1)])
run('F1c read back exceeds upper (s30/23)',
    lambda: Fraction(float(np.asarray(Fxp(a, True, 30, 23).get_val())[1].real)), Fraction(2**29 - 1, 2**23))

# ---- F2: np.longdouble scalar is rounded to double before quantization (array carrier is exact)
v = np.longdouble(1) - np.longdouble(2) ** -60
if ld_frac(v) != 1:      # platform has an extended long double
    e = oracle(ld_frac(v), True, 8, 0, 'floor', 'saturate')
    run('F2a longdouble scalar, constructor', lambda: codes(Fxp(v, True, 8, 0, rounding='floor')), [e])
    run('F2b longdouble scalar, set_val', lambda: codes(Fxp(None, True, 8, 0, rounding='floor').set_val(v)), [e])
    run('F2c longdouble scalar, call', lambda: codes(Fxp(None, True, 8, 0, rounding='floor')(v)), [e])
    def _idx():
        x = Fxp([0.0, 0.0], True, 8, 0, rounding='floor'); x[0] = v; return codes(x)
    run('F2d longdouble scalar, indexed assignment', _idx, [e, 0])
    run('F2  (control) same value in a 1-element longdouble array', lambda: codes(Fxp(np.array([v]), True, 8, 0, rounding='floor')), [e])
    w = np.longdouble(1) / 3
    run('F2e longdouble 1/3 into s52/60 wrap', lambda: codes(Fxp(w, True, 52, 60, overflow='wrap')),
        [oracle(ld_frac(w), True, 52, 60, 'trunc', 'wrap')])

    # ---- F3: longdouble array with one element >= 2**64 (saturate): the other elements are rounded to double first
    b = np.array([v, np.longdouble(1e30)])
    run('F3a longdouble array with a huge companion', lambda: codes(Fxp(b, True, 8, 0, rounding='floor')),
        [oracle(ld_frac(x), True, 8, 0, 'floor', 'saturate') for x in b])
    t = np.array([np.longdouble('1e-4000'), np.longdouble(1e30)])
    run('F3b tiny longdouble, ceil, huge companion', lambda: codes(Fxp(t, True, 8, 0, rounding='ceil')), [1, 127])

# ---- F4: complex component that underflows in v*2**n_frac (n_frac<0) loses its sign/non-zeroness (real path handles it)
run('F4a complex 5e-324+0j, s8/-1, ceil', lambda: codes(Fxp(complex(5e-324, 0.0), True, 8, -1, rounding='ceil')), [(1, 0)])
run('F4  (control) real 5e-324, s8/-1, ceil', lambda: codes(Fxp(5e-324, True, 8, -1, rounding='ceil')), [1])
run('F4b complex -5e-324+5e-324j, s8/-1, floor', lambda: codes(Fxp(complex(-5e-324, 5e-324), True, 8, -1, rounding='floor')), [(-1, 0)])
run('F4c complex64 1e-45 (float32 denormal), s8/-8, ceil',
    lambda: codes(Fxp(np.array([np.complex64(1e-45)]), True, 8, -8, rounding='ceil')), [(1, 0)])

# ---- F5: a real value stored by indexed assignment into a complex array: read-back of every element loses its imaginary part
def _f5():
    x = Fxp([1 + 2j, 3 + 4j], True, 16, 4)
    x[1] = 2.5
    return [complex(c) for c in np.asarray(x.get_val()).flatten()]
run('F5 get_val() after x[1]=2.5 on a complex array', _f5, [1 + 2j, 2.5 + 0j])

# ---- F6 (minor): a complex scalar object does not accept indexed assignment (a real scalar object does)
def _f6():
    x = Fxp(0j, True, 8, 2); x[()] = 1.5 + 1j; return codes(x)
run('F6 x[()] = 1.5+1j on a complex scalar object', _f6, [(6, 4)])
def _f6r():
    x = Fxp(0.0, True, 8, 2); x[()] = 1.5; return codes(x)
run('F6 (control) x[()] = 1.5 on a real scalar object', _f6r, [6])

# ---- borderline items (reported, not counted as violations)
print('--- borderline (not counted) ---')
def show(title, f, expected):
    try: got = f()
    except Exception as e: got = 'EXC ' + repr(e)
    print('%s %s: got %s expected %s' % ('borderline-diff' if got != expected else 'ok', title, got, expected))
show('B1 decimal string 0.99999999999999999999, s8/0 floor', lambda: codes(Fxp('0.99999999999999999999', True, 8, 0, rounding='floor')), [0])
show('B2 decimal string "5e-1", s8/0 ceil', lambda: codes(Fxp('5e-1', True, 8, 0, rounding='ceil')), [1])
show('B2 (control) "5e-1", s8/1 ceil', lambda: codes(Fxp('5e-1', True, 8, 1, rounding='ceil')), [1])
from decimal import Decimal
show('B3 Decimal("0.7") s8/0 around', lambda: codes(Fxp(Decimal('0.7'), True, 8, 0, rounding='around')), [1])
show('B3 Decimal("4") s8/-1', lambda: codes(Fxp(Decimal('4'), True, 8, -1)), [2])
def _b4():
    x = Fxp([1.0, 2.0], True, 16, 4); x[0] = 1.5 + 2.5j; return codes(x)
show('B4 complex stored by index into a real array', _b4, [(24, 40), (32, 0)])
show('B5 list of bool', lambda: codes(Fxp([True, False], True, 8, 2)), [4, 0])

sys.exit(1 if n_viol else 0)
