#!/usr/bin/env python
"""C13 bug-hunt reproducers. fxpmath is imported from $FXP_REPO (default /tmp/wth-C13)."""
import os, sys, warnings
sys.path.insert(0, os.environ.get('FXP_REPO', '/tmp/wth-C13'))
warnings.simplefilter('ignore')
import numpy as np
from fxpmath import Fxp

violations = 0

def resign(p, signed, n):
    p %= 1 << n
    if signed and p >= 1 << (n - 1):
        p -= 1 << n
    return p

def describe(z):
    if isinstance(z, Fxp):
        return "%s bin=%s raw=%s" % (z.dtype, z.bin(), np.asarray(z.val).tolist())
    return repr(z)

def check(title, thunk, signed, n_word, n_frac, exp_patterns):
    """exp_patterns: int or (nested) list of ints = expected n_word-bit patterns (unsigned view)."""
    global violations
    exp_pat = np.asarray(exp_patterns, dtype=object)
    exp_raw = [resign(int(p), signed, n_word) for p in exp_pat.flatten()]
    exp_bin = [format(int(p), '0%db' % n_word) for p in exp_pat.flatten()]
    expected = "fxp-%s%d/%d bin=%s raw=%s" % ('s' if signed else 'u', n_word, n_frac, exp_bin, exp_raw)
    try:
        z = thunk()
        ok = isinstance(z, Fxp) and z.signed == signed and z.n_word == n_word and z.n_frac == n_frac \
            and np.shape(z.val) == exp_pat.shape \
            and [int(v) for v in np.asarray(z.val).flatten()] == exp_raw \
            and np.asarray(z.bin()).flatten().tolist() == exp_bin
        got = describe(z)
    except Exception as e:
        ok = False
        got = "%s: %s" % (type(e).__name__, str(e)[:90])
    if not ok:
        violations += 1
        print("VIOLATION %s: got %s expected %s" % (title, got, expected))
    else:
        print("ok        %s: %s" % (title, got))

# ---- control: the same masks as Python ints on the left are handled correctly --------------------------
check("control  255 & s8/0(-56)", lambda: 255 & Fxp(-56, True, 8, 0), True, 8, 0, 0b11001000)

# ---- Finding 1: NumPy integer scalar as the LEFT operand (mask op x) ---------------------------------
check("F1a np.uint8(255) & fxp-s8/0(-56): wrong format and wrong bit pattern",
      lambda: np.uint8(255) & Fxp(-56, True, 8, 0), True, 8, 0, 0b11001000)
check("F1b np.int64(6) & fxp-s8/0(5): result is not in x's format",
      lambda: np.int64(6) & Fxp(5, True, 8, 0), True, 8, 0, 0b00000100)
check("F1c np.int64(-2) | fxp-s8/0(5): result is not in x's format",
      lambda: np.int64(-2) | Fxp(5, True, 8, 0), True, 8, 0, 0b11111111)
check("F1d np.uint8(255) ^ fxp-u8/0(200): unsigned x gives a signed 7-bit result",
      lambda: np.uint8(255) ^ Fxp(200, False, 8, 0), False, 8, 0, 0b00110111)
check("F1e np.int64(6) & fxp-s8/2(raw 5): TypeError as soon as n_frac > 0",
      lambda: np.int64(6) & Fxp(5, True, 8, 2, raw=True), True, 8, 2, 0b00000100)
check("F1f np.int64(255) ^ fxp-u8/0(200): TypeError for unsigned x with a signed NumPy mask",
      lambda: np.int64(255) ^ Fxp(200, False, 8, 0), False, 8, 0, 0b00110111)
check("F1g np.int64(6) & fxp-s64/0(5): 64-bit word collapses to 4 bits",
      lambda: np.int64(6) & Fxp(5, True, 64, 0), True, 64, 0, 0b100)

# ---- Finding 2 (borderline: arrays are not named in the quantifier): Fxp array (op) Fxp array ---------
xa = lambda: Fxp([1, 2, 3, 5], True, 8, 2, raw=True)
ya = lambda: Fxp([7, 6, 4, 1], False, 8, 0, raw=True)
check("F2a array & array of the same word length raises TypeError",
      lambda: xa() & ya(), True, 8, 2, [1 & 7, 2 & 6, 3 & 4, 5 & 1])
check("F2b array ^ itself raises TypeError",
      lambda: xa() ^ xa(), True, 8, 2, [0, 0, 0, 0])
check("F2c scalar | array raises TypeError (array | scalar works)",
      lambda: Fxp(6, True, 8, 2, raw=True) | xa(), True, 8, 2, [7, 6, 7, 7])
check("control  array | scalar", lambda: xa() | Fxp(6, True, 8, 2, raw=True), True, 8, 2, [7, 6, 7, 7])

sys.exit(1 if violations else 0)
