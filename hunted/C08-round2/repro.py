#!/usr/bin/env python
"""Reproducers for the C08 hunt (arithmetic into an imposed format == exact result quantized into it)."""
import os, sys, math, warnings
sys.path.insert(0, os.environ.get('FXP_REPO', '/repo'))
warnings.simplefilter('ignore')
import numpy as np
from fractions import Fraction as F
from decimal import Decimal
from fxpmath import Fxp

def rnd(v, mode):
    return {'trunc': math.trunc, 'fix': math.trunc, 'floor': math.floor, 'ceil': math.ceil, 'around': round}[mode](v)

def quant(v, z):
    """exact oracle: code and flags of the rational v stored in the format/config of z"""
    r = rnd(F(v) * F(2) ** z.n_frac, z.config.rounding)
    lo, hi = (-(1 << (z.n_word - 1)), (1 << (z.n_word - 1)) - 1) if z.signed else (0, (1 << z.n_word) - 1)
    if z.config.overflow == 'saturate':
        c = min(max(r, lo), hi)
    else:
        c = r % (1 << z.n_word)
        if z.signed and c > hi: c -= 1 << z.n_word
    return c, r > hi, r < lo

def codes(z):
    return [int(c) for c in np.asarray(z.val).flatten()]

n_viol = 0
def check(title, z, exact_values, borderline=False):
    """compares codes and overflow/underflow flags of z with the oracle"""
    global n_viol
    exp = [quant(v, z) for v in exact_values]
    e_codes = [e[0] for e in exp]; e_of = any(e[1] for e in exp); e_uf = any(e[2] for e in exp)
    got = (codes(z), z.status['overflow'], z.status['underflow'])
    want = (e_codes, e_of, e_uf)
    if got != want:
        n_viol += 0 if borderline else 1
        print('%s %s: got codes=%s overflow=%s underflow=%s expected codes=%s overflow=%s underflow=%s (format %s, %s/%s)' % (
            ('BORDERLINE' if borderline else 'VIOLATION'), title, got[0], got[1], got[2], want[0], want[1], want[2], z.dtype, z.config.rounding, z.config.overflow))
    else:
        print('ok        %s' % title)

# F1 ------------------------------------------------------------------------------------------------------------
x = Fxp(2047, True, 12, 0); y = Fxp(1, True, 12, 0)
x.config.op_out = Fxp(None, True, 56, 52)                       # saturate, raw method (defaults)
check('F1 scalar x+y (raw, out=fxp-s56/52, saturate): code in [2**63, 2**64) taken as negative', x + y, [F(2048)])
x = Fxp(2047, True, 12, 0); y = Fxp(-1, True, 12, 0)
x.config.op_out = Fxp(None, True, 56, 52, overflow='wrap')
check('F1 scalar x-y (raw, out=fxp-s56/52, wrap): underflow flag instead of overflow', x - y, [F(2048)])
x = Fxp(7.5, True, 8, 4); y = Fxp(3.0, True, 8, 4)
x.config.op_out = Fxp(None, True, 63, 60)
check('F1 scalar 7.5+3.0 (raw, out=fxp-s63/60, saturate)', x + y, [F(21, 2)])

# F2 ------------------------------------------------------------------------------------------------------------
x = Fxp(1023.5, True, 12, 1); y = Fxp(1023.5, True, 12, 1)
x.config.op_out_like = Fxp(None, True, 48, 44, overflow='wrap')
check('F2 x*y (out_like=fxp-s48/44, wrap): float >= 2**63 cast to int64', x * y, [F(2047, 2) ** 2])
x = Fxp(1023.5, True, 12, 1, op_method='repr'); y = Fxp(1023.5, True, 12, 1)
x.config.op_out = Fxp(None, True, 48, 44, overflow='wrap')
z_repr = codes(x * y)
x = Fxp(1023.5, True, 12, 1, op_method='raw'); x.config.op_out = Fxp(None, True, 48, 44, overflow='wrap')
z_raw = codes(x * y)
if z_raw != z_repr:
    n_viol += 1
    print('VIOLATION F2 raw vs repr (out=fxp-s48/44, wrap): got raw=%s repr=%s expected identical' % (z_raw, z_repr))

# F3 ------------------------------------------------------------------------------------------------------------
x = Fxp([0.5, 3.5], True, 8, 4); y = Fxp([0.5, 3.5], True, 8, 4)
x.config.op_out_like = Fxp(None, True, 56, 52)
check('F3 [0.5,3.5]*[0.5,3.5] (out_like=fxp-s56/52, saturate): stored code above the maximum', x * y, [F(1, 4), F(49, 4)])

# F4 ------------------------------------------------------------------------------------------------------------
x = Fxp(2.0, True, 8, 4); y = Fxp(4.0, True, 8, 4)
x.config.op_out_like = Fxp(None, True, 56, 52)
check('F4 2.0*4.0 (out_like=fxp-s56/52, saturate): result == upper+LSB, overflow flag not set', x * y, [F(8)])
x = Fxp(2.0, True, 8, 4); y = Fxp(4.0, True, 8, 4)
x.config.op_out_like = Fxp(None, True, 56, 52, overflow='wrap')
check('F4 2.0*4.0 (out_like=fxp-s56/52, wrap): overflow flag not set', x * y, [F(8)])
x = Fxp([2.0], True, 8, 4); y = Fxp(4.0, True, 8, 4)
x.config.op_out_like = Fxp(None, True, 64, 60)
check('F4 [2.0]*4.0 (out_like=fxp-s64/60, saturate): code 2**63 stored in a 64-bit signed word', x * y, [F(8)])

# F5 ------------------------------------------------------------------------------------------------------------
x = Fxp([1 + 2j], True, 8, 4); y = Fxp(0.5 - 0.25j, True, 8, 4)
x.config.op_out = Fxp(None, True, 16, 8)
z = x + y
got = complex(np.asarray(z()).flatten()[0])
if got != 1.5 + 1.75j:
    n_viol += 1
    print('VIOLATION F5 complex array sum into a real-created out (raw): got value %r (codes %s) expected (1.5+1.75j)' % (got, z.val))
else:
    print('ok        F5')

# B1 (borderline) ----------------------------------------------------------------------------------------------
x = Fxp(0.25, True, 8, 2, rounding='around', overflow='wrap', op_input_size='best', const_op_sizing='smallest')
z = 1 - x
if (z.config.rounding, z.config.overflow) != ('around', 'wrap') or codes(z) != [1]:
    print('BORDERLINE B1 1 - x (op_input_size=best, smallest): got config %s/%s code %s expected the configuration of x (around/wrap) code [1]' % (
        z.config.rounding, z.config.overflow, codes(z)))
x = Fxp(0.5, True, 8, 4, op_input_size='best')      # const_op_sizing='same' (default)
z = 3 - x
if z.dtype != x.dtype:
    print('BORDERLINE B1 3 - x (op_input_size=best, const_op_sizing=same): got format %s value %s expected %s value 2.5' % (z.dtype, z(), x.dtype))

# B2 (borderline) ----------------------------------------------------------------------------------------------
x = Fxp(0, True, 8, 1, rounding='ceil', op_input_size='same')
z = x + Decimal('0.75')
if codes(z) != codes(x + 0.75):
    print('BORDERLINE B2 x + Decimal("0.75") (rounding=ceil, op_input_size=same): got code %s expected %s (as for the float 0.75)' % (codes(z), codes(x + 0.75)))

print('violations:', n_viol)
sys.exit(1 if n_viol else 0)
