#!/usr/bin/env python
"""C18 reproducers (extended precision, words of 64+ bits). Oracle: Python integers only."""
import os, sys
sys.path.insert(0, os.environ.get('FXP_REPO', '/repo'))
import numpy as np
from fxpmath import Fxp

violations = 0

def codes(x):
    return [int(v) for v in np.asarray(x.val).flatten()]

def report(title, got, expected):
    global violations
    violations += 1
    print('VIOLATION {}: got {} expected {}'.format(title, got, expected))

def attempt(f):
    try:
        return f()
    except Exception as e:            # an exception is reported as the observed result
        return 'EXC ' + repr(e)[:110]

# ---- F1: << (default shifting='expand') on a wide ARRAY raises TypeError ------------------------------------------
title = 'F1 left shift of a wide array (shifting=expand) raises'
a, b = 2**100 + 1, 2**90 + 3
def f1():
    y = Fxp([a, b], True, 128, 0) << 1
    return codes(y), y.status['overflow'], y.status['underflow']
got, exp = attempt(f1), ([a << 1, b << 1], False, False)
if got != exp: report(title, got, exp)

# ---- F2: << (expand) on a wide SCALAR just above a power of two: word under-sized, result saturated ----------------
title = 'F2 left shift of a wide scalar (shifting=expand) under-sizes the word and saturates'
for signed, n, c in [(False, 101, 2**100 + 1), (True, 128, 2**126 + 1), (True, 128, -(2**126) - 1), (False, 64, 2**63 + 1)]:
    def f2():
        y = Fxp(c, signed, n, 0, raw=True) << 1
        return int(y.val), y.status['overflow'], y.status['underflow']
    got, exp = attempt(f2), (c << 1, False, False)
    if got != exp: report(title + ' [{}{}/0 code {}]'.format('s' if signed else 'u', n, c), got, exp)

# ---- F3: >> with shifting='trunc' / 'keep' on a wide scalar leaves a bare Python int in .val -----------------------
title = 'F3 right shift (shifting=trunc) of a wide scalar returns an object that cannot be shifted / and-ed again'
c = -(2**100) - 5
for sh in ('trunc', 'keep'):
    def f3():
        x = Fxp(c, True, 128, 0, shifting=sh)
        return int(((x >> 1) >> 1).val)
    got, exp = attempt(f3), c >> 2
    if got != exp: report(title + ' [(x>>1)>>1, shifting={}]'.format(sh), got, exp)
def f3b():
    x = Fxp(c, True, 128, 0, shifting='trunc')
    return int(((x >> 1) & x).val)
got, exp = attempt(f3b), (c >> 1) & c
if got != exp: report(title + ' [(x>>1)&x]', got, exp)
def f3c():
    x = Fxp(c, True, 128, 0, shifting='trunc')
    return type((x >> 1).val).__name__
got, exp = attempt(f3c), 'ndarray'
if got != exp: report(title + ' [type of (x>>1).val]', got, exp)

# ---- F4: and / or / xor of two array operands raise TypeError -------------------------------------------------------
title = 'F4 bitwise operator between two wide array operands raises'
p, q = [2**127 - 1, 2**100 + 1], [2**100 + 1, 2**64 - 1]
M = (1 << 128) - 1
for nm, f, o in [('and', lambda x, y: x & y, lambda s, t: s & t), ('or', lambda x, y: x | y, lambda s, t: s | t),
                 ('xor', lambda x, y: x ^ y, lambda s, t: s ^ t)]:
    got = attempt(lambda: codes(f(Fxp(p, False, 128, 64, raw=True), Fxp(q, False, 128, 64, raw=True))))
    exp = [o(s, t) & M for s, t in zip(p, q)]
    if got != exp: report(title + ' [{}]'.format(nm), got, exp)

# ---- F5: x[i] = <int> on a wide array stores a 0-d ndarray, not a Python integer ------------------------------------
title = 'F5 indexed assignment into a wide array stores a nested 0-d ndarray instead of the integer'
def f5():
    x = Fxp([0, 0, 0], True, 128, 0)
    x[1] = 2**100 + 1
    return [type(v).__name__ for v in x.val]
got, exp = attempt(f5), ['int', 'int', 'int']
if got != exp: report(title, got, exp)

print('{} violation(s)'.format(violations))
sys.exit(1 if violations else 0)
