#!/usr/bin/env python
"""
C03 (wrap overflow is exact two's-complement modular arithmetic) - reproducers.

fxpmath is imported from $FXP_REPO (default /tmp/wth-C03).
Every expected value is computed with Python integers / fractions.Fraction only.
Exit code 1 if at least one violation reproduces, 0 otherwise.
"""
import os
import sys
import math
import warnings
from fractions import Fraction

sys.path.insert(0, os.environ.get('FXP_REPO', '/tmp/wth-C03'))
warnings.filterwarnings('ignore')

import numpy as np          # noqa: E402
import fxpmath              # noqa: E402
from fxpmath import Fxp     # noqa: E402


# ---------------------------------------------------------------- exact oracle
def rnd(q, mode):
    q = Fraction(q)
    if mode == 'floor':
        return math.floor(q)
    if mode == 'ceil':
        return math.ceil(q)
    if mode in ('trunc', 'fix'):
        return math.trunc(q)
    if mode == 'around':
        return round(q)             # half to even, exact on Fraction
    raise ValueError(mode)


def wrap(k, signed, n_word):
    m = 1 << n_word
    k %= m
    if signed and k >= m >> 1:
        k -= m
    return k


def code(v, signed, n_word, n_frac, mode='trunc'):
    """the code C03 demands for the exact real value v"""
    return wrap(rnd(Fraction(v) * Fraction(2) ** n_frac, mode), signed, n_word)


def raw_of(x):
    return [int(t) for t in np.asarray(x.val).flatten()]


def fxp_raw(raw, signed, n_word, n_frac, **kw):
    """Fxp holding exactly the given raw code(s) (checked)"""
    x = Fxp(None, signed=signed, n_word=n_word, n_frac=n_frac, **kw)
    x.set_val(raw, raw=True)
    assert raw_of(x) == (list(raw) if isinstance(raw, (list, tuple)) else [raw]), 'setup failed'
    return x


violations = 0


def check(title, got, exp):
    global violations
    if got != exp:
        violations += 1
        print('VIOLATION {}: got {} expected {}'.format(title, got, exp))
    else:
        print('ok        {}: {}'.format(title, got))


def guarded(title, fn):
    try:
        got, exp = fn()
    except Exception as e:                       # an exception is not the violation we describe
        print('ERROR     {}: {!r}'.format(title, e))
        return
    check(title, got, exp)


# ------------------------------------------------------------------ finding 1
# A 64-bit word (object dtype, vdtype float) copied into a narrower wrap word goes through float64.
def f1a():
    acc = fxp_raw(2**61 + 1, True, 64, 32)                     # value (2**61+1)/2**32 ~ 2**29
    lo = Fxp(acc, signed=True, n_word=32, n_frac=32, overflow='wrap')
    v = Fraction(2**61 + 1, 2**32)
    return raw_of(lo), [code(v, True, 32, 32)]                 # low 32 bits = 1


def f1b():
    a = fxp_raw(2**30 + 1, True, 32, 16)
    b = fxp_raw(2**30 + 3, True, 32, 16)
    acc = Fxp(None, signed=True, n_word=64, n_frac=32, overflow='wrap')
    fxpmath.mul(a, b, out=acc)                                 # exact 64-bit product in the accumulator
    assert raw_of(acc) == [(2**30 + 1) * (2**30 + 3)]
    lo = Fxp(None, signed=True, n_word=32, n_frac=32, overflow='wrap')
    lo(acc)                                                    # keep the low 32 bits
    v = Fraction((2**30 + 1) * (2**30 + 3), 2**32)
    return raw_of(lo), [code(v, True, 32, 32)]                 # 3


def f1c():
    y = Fxp(2**55 + 1, signed=True, n_word=64, n_frac=4)       # Python-integer input, 64-bit word
    assert raw_of(y) == [(2**55 + 1) * 16]
    x = Fxp([0, 0], signed=False, n_word=16, n_frac=4, overflow='wrap')
    x[0] = y
    return raw_of(x), [code(2**55 + 1, False, 16, 4), 0]       # 16


# ------------------------------------------------------------------ finding 2
# unsigned - unsigned is evaluated in uint64: a negative difference becomes 2**64 - d for words wider than 64 bits
def f2(signed, n_word, how):
    def run():
        x = Fxp(1, signed=False, n_word=8, n_frac=0, overflow='wrap')
        y = Fxp(2, signed=False, n_word=8, n_frac=0, overflow='wrap')
        z = Fxp(None, signed=signed, n_word=n_word, n_frac=0, overflow='wrap')
        if how == 'out':
            fxpmath.sub(x, y, out=z)
        elif how == 'op_out':
            x.config.op_out = z
            z = x - y
        else:
            x.config.op_out_like = z
            z = x - y
        return raw_of(z), [code(1 - 2, signed, n_word, 0)]
    return run


# ------------------------------------------------------------------ finding 3
# scaling by 2**(negative) is a float64 multiplication: wide results lose their low bits before the wrap
def f3a():
    x = fxp_raw(-3235379017908428691, True, 64, 32, overflow='wrap', op_sizing='same')
    one = Fxp(1, signed=True, n_word=64, n_frac=32)
    z = x * one                                                # same sizing: s64/32, wrap
    assert (z.signed, z.n_word, z.n_frac, z.config.overflow) == (True, 64, 32, 'wrap')
    return raw_of(z), [code(Fraction(-3235379017908428691, 2**32) * 1, True, 64, 32)]


def f3b():
    x = fxp_raw(2**200 + 12345, True, 256, 0, overflow='wrap', op_sizing='same')
    y = fxp_raw(0, False, 129, 64)                             # exactly zero, only more fractional bits
    z = x + y
    assert (z.signed, z.n_word, z.n_frac, z.config.overflow) == (True, 256, 0, 'wrap')
    return raw_of(z), [code(2**200 + 12345, True, 256, 0)]


def f3c():
    y = fxp_raw(2**129 - 1, False, 129, 64)                    # all ones
    x = Fxp(y, signed=True, n_word=64, n_frac=32, overflow='wrap', rounding='floor')
    return raw_of(x), [code(Fraction(2**129 - 1, 2**64), True, 64, 32, 'floor')]   # bits 32..95 -> -1


def f3d():
    x = fxp_raw(2**52 - 1, False, 52, 4, overflow='wrap', op_sizing='same')       # value < 2**48
    three = Fxp(3, signed=False, n_word=52, n_frac=4)
    z = x * three                                                                  # |v| < 2**50
    assert (z.signed, z.n_word, z.n_frac, z.config.overflow) == (False, 52, 4, 'wrap')
    return raw_of(z), [code(Fraction(2**52 - 1, 16) * 3, False, 52, 4)]


def f3e():
    x = fxp_raw(1125899906842622, True, 51, 0, overflow='wrap', rounding='floor', op_sizing='same')
    y = fxp_raw(-2251799813685247, True, 52, 3)
    z = x - y                                                                      # |v| < 2**51
    assert (z.signed, z.n_word, z.n_frac, z.config.overflow, z.config.rounding) == (True, 51, 0, 'wrap', 'floor')
    v = Fraction(1125899906842622) - Fraction(-2251799813685247, 8)
    return raw_of(z), [code(v, True, 51, 0, 'floor')]


# ------------------------------------------------------------------ finding 4
# n_word >= 64 and n_frac < 0: the conversion factor is a float, Python integers above 2**53 are rounded by it
def f4a():
    v = 2**75 + 6                                              # = 6 + 2**10 * 2**(64-(-1))
    x = Fxp(v, signed=False, n_word=64, n_frac=-1, overflow='wrap')
    return raw_of(x), [code(v, False, 64, -1)]                 # 3, the same code as for v = 6


def f4b():
    v = -3 * 2**63 - 3
    x = Fxp(None, signed=True, n_word=96, n_frac=-3, overflow='wrap', rounding='floor')
    x.set_val([v, -5])
    return raw_of(x), [code(v, True, 96, -3, 'floor'), code(-5, True, 96, -3, 'floor')]


# ------------------------------------------------------------------ finding 5 (carrier: borderline)
# object array whose first element is an int: every float element is cast to int before scaling
def f5():
    vals = np.array([1, 0.5, -0.75, 130.25], dtype=object)
    x = Fxp(vals, signed=True, n_word=8, n_frac=4, overflow='wrap')
    return raw_of(x), [code(Fraction(v), True, 8, 4) for v in (1, Fraction(1, 2), Fraction(-3, 4), Fraction(521, 4))]


guarded('F1a 64-bit Fxp (vdtype float) copied into s32/32 wrap word loses its low bits', f1a)
guarded('F1b low word of an exact 64-bit product accumulator (mul(out=acc); lo(acc))', f1b)
guarded('F1c indexed assignment of a 64-bit Fxp into a u16/4 wrap array', f1c)
for _signed, _n_word in ((True, 65), (False, 65), (True, 128), (False, 256)):
    guarded('F2 u8(1) - u8(2) stored with sub(out=) in {}{}/0 wrap'.format('s' if _signed else 'u', _n_word),
            f2(_signed, _n_word, 'out'))
guarded('F2 u8(1) - u8(2) stored through config.op_out in s128/0 wrap', f2(True, 128, 'op_out'))
guarded('F2 u8(1) - u8(2) stored through config.op_out_like in s128/0 wrap', f2(True, 128, 'op_out_like'))
guarded('F3a x * 1 with op_sizing=same in s64/32 wrap is not x', f3a)
guarded('F3b x + 0 (zero with 64 fractional bits) with op_sizing=same in s256/0 wrap is not x', f3b)
guarded('F3c u129/64 all-ones cast to s64/32 wrap (floor)', f3c)
guarded('F3d core: u52/4 x * 3 with op_sizing=same, wrap', f3d)
guarded('F3e core: s51/0 - s52/3 with op_sizing=same, wrap, floor', f3e)
guarded('F4a u64/-1 wrap: shift invariance broken for Python int 2**75+6', f4a)
guarded('F4b s96/-3 wrap floor, Python int list', f4b)
guarded('F5 (borderline carrier) object array [int, float, ...] in s8/4 wrap', f5)

print('{} violation(s)'.format(violations))
sys.exit(1 if violations else 0)
