#!/usr/bin/env python
"""
Re-checks every finding of the C02 hunt (well-formed objects: codes in range, consistent metadata, saturation side).
Imports fxpmath from $FXP_REPO (default /tmp/hunt3/wt-C02).  One line per finding, starting with VIOLATION or holds.
Exit status 1 if a finding classed INSIDE is violated, else 0.
Oracles are exact (Python ints / fractions.Fraction); no float is used for an expected value.
"""
import os, sys, io, contextlib, warnings
sys.path.insert(0, os.environ.get('FXP_REPO', '/tmp/hunt3/wt-C02'))
warnings.filterwarnings('ignore')
from fractions import Fraction
import numpy as np
import fxpmath
from fxpmath import Fxp

RESULTS = []

def bounds(z):
    if z.signed:
        return -(1 << (z.n_word - 1)), (1 << (z.n_word - 1)) - 1
    return 0, (1 << z.n_word) - 1

def codes(z):
    """flat list of the stored codes as they are (no conversion)"""
    v = z.val
    if isinstance(v, np.ndarray):
        return v.flatten().tolist()
    if isinstance(v, np.generic):
        return [v.item()]
    return [v]

def range_problems(z):
    """list of problems with the codes of z: every code must be an integer (real and imaginary part for complex) in range"""
    lo, hi = bounds(z)
    out = []
    if not isinstance(z.val, (np.ndarray, np.generic)):
        out.append('val is a bare %s, not an array' % type(z.val).__name__)
    for c in codes(z):
        parts = [c.real, c.imag] if isinstance(c, complex) else [c]
        for q in parts:
            if isinstance(q, float):
                if q != q or q in (float('inf'), float('-inf')) or q != int(q):
                    out.append('code %r is not an integer' % (q,)); continue
                q = int(q)
            if not isinstance(q, (int, np.integer)) or isinstance(q, bool):
                out.append('code %r has type %s' % (q, type(q).__name__)); continue
            if not lo <= int(q) <= hi:
                out.append('code %d outside [%d, %d]' % (int(q), lo, hi))
    return out

def meta_problems(z):
    out = []
    sb = 1 if z.signed else 0
    if z.n_int != z.n_word - z.n_frac - sb:
        out.append('n_int %r' % (z.n_int,))
    want = 'fxp-%s%d/%d' % ('s' if z.signed else 'u', z.n_word, z.n_frac)
    if not (z.dtype == want or z.dtype == want + '-complex'):
        out.append('dtype %r for signed=%r n_word=%r n_frac=%r' % (z.dtype, z.signed, z.n_word, z.n_frac))
    return out

def quiet(f, *a, **k):
    with contextlib.redirect_stdout(io.StringIO()):
        return f(*a, **k)

def report(tag, cls, problems):
    line = ('VIOLATION' if problems else 'holds') + ' [%s] %s' % (cls, tag)
    if problems:
        line += ' :: ' + '; '.join(str(p) for p in problems[:3])
    print(line)
    RESULTS.append((cls, bool(problems)))

def finding(tag, cls):
    def deco(f):
        try:
            problems = quiet(f)
        except Exception as e:       # the check itself could not run: say so, do not count it as a violation
            print('holds [%s] %s :: (check raised %s: %s)' % (cls, tag, type(e).__name__, str(e)[:80]))
            RESULTS.append((cls, False))
            return f
        report(tag, cls, problems)
        return f
    return deco

# ----------------------------------------------------------------------------------------------------------------------
# A1  (INSIDE)  indexed assignment of a one-element sequence into ONE element of a word of 64 bits or more
# ----------------------------------------------------------------------------------------------------------------------
@finding('A1a  x=Fxp([1,2,3],True,64,0); x[0]=[5]  -> either rejected (as for 32-bit words) or code 5; never an ndarray as a code', 'INSIDE')
def _():
    x = Fxp([1, 2, 3], True, 64, 0)
    try:
        x[0] = [5]
    except ValueError:
        pass
    p = range_problems(x)
    if not p and codes(x) not in ([5, 2, 3], [1, 2, 3]):
        p.append('codes %r' % (codes(x),))
    return p

@finding('A1b  x=Fxp([1,2,3],True,64,0); y=Fxp([7,8,9],True,64,0); x[0]=y[1:2]  (length-1 slice of another Fxp)', 'INSIDE')
def _():
    x = Fxp([1, 2, 3], True, 64, 0); y = Fxp([7, 8, 9], True, 64, 0)
    try:
        x[0] = y[1:2]
    except ValueError:
        pass
    p = range_problems(x)
    if not p and codes(x) not in ([8, 2, 3], [1, 2, 3]):
        p.append('codes %r' % (codes(x),))
    return p

@finding('A1c  x=Fxp([1.5,2,3],True,72,8); x[-1]=(2.25,) raises ValueError AFTER the write: the object stays corrupted', 'INSIDE')
def _():
    x = Fxp([1.5, 2, 3], True, 72, 8)
    try:
        x[-1] = (2.25,)
    except ValueError:
        pass
    p = range_problems(x)
    if not p and codes(x) not in ([384, 512, 576], [384, 512, 768]):
        p.append('codes %r' % (codes(x),))
    return p

@finding('A1d  x=Fxp([[1,2],[3,4]],False,64,0); x[1,1]=[[5]]', 'INSIDE')
def _():
    x = Fxp([[1, 2], [3, 4]], False, 64, 0)
    try:
        x[1, 1] = [[5]]
    except ValueError:
        pass
    return range_problems(x)

@finding('A1-ref  same statement on a 32-bit word is rejected and leaves the object intact (reference behaviour)', 'INFO')
def _():
    x = Fxp([1, 2, 3], True, 32, 0)
    try:
        x[0] = [5]
    except ValueError:
        pass
    p = range_problems(x)
    if codes(x) not in ([5, 2, 3], [1, 2, 3]):
        p.append('codes %r' % (codes(x),))
    return p

# ----------------------------------------------------------------------------------------------------------------------
# B1  (ARGUABLE)  np.conjugate / np.conj / x.conj() of a REAL object of 55 bits or more
# ----------------------------------------------------------------------------------------------------------------------
@finding('B1a  w=Fxp(1.0,True,64,63) (code 2**63-1); np.conj(w) must hold the same in-range code', 'ARGUABLE')
def _():
    w = Fxp(1.0, True, 64, 63)
    assert int(w.val) == 2**63 - 1
    z = np.conj(w)
    p = range_problems(z)
    c = codes(z)[0]
    if not p and int(c.real if isinstance(c, complex) else c) != 2**63 - 1:
        p.append('code %r != %d' % (c, 2**63 - 1))
    return p

@finding('B1b  w=Fxp(0.999999999999999999,True,60,59) (code 2**59-1); w.conj()', 'ARGUABLE')
def _():
    w = Fxp(0.999999999999999999, True, 60, 59)
    assert int(w.val) == 2**59 - 1
    return range_problems(w.conj())

# ----------------------------------------------------------------------------------------------------------------------
# B2  (ARGUABLE)  0/0 by the value method (a NaN) stored into a saturating word of 54..63 bits
# ----------------------------------------------------------------------------------------------------------------------
@finding("B2a  a=Fxp([1.0,0.0],True,30,15,op_method='repr'); b=Fxp([2.0,0.0],True,30,15); a/b -> every code in range", 'ARGUABLE')
def _():
    a = Fxp([1.0, 0.0], True, 30, 15, op_method='repr'); b = Fxp([2.0, 0.0], True, 30, 15)
    z = a / b
    return range_problems(z) + meta_problems(z)

@finding("B2b  a=Fxp([1.0,0.0],False,60,30,op_sizing='same',op_method='repr'); a/a", 'ARGUABLE')
def _():
    a = Fxp([1.0, 0.0], False, 60, 30, op_sizing='same', op_method='repr')
    return range_problems(a / a)

@finding('B2c  Fxp([1.0, nan, 2.0**40], True, 60, 30): the FINITE out-of-range 2**40 must be stored as the upper bound 2**59-1', 'ARGUABLE')
def _():
    z = Fxp([1.0, float('nan'), 2.0**40], True, 60, 30)
    c = int(codes(z)[2])
    return [] if c == 2**59 - 1 else ['2.0**40 stored as %d, upper bound is %d' % (c, 2**59 - 1)]

# ----------------------------------------------------------------------------------------------------------------------
# B3  (ARGUABLE)  callbacks see / leave a half-resized object
# ----------------------------------------------------------------------------------------------------------------------
@finding('B3a  fail-fast callback: x=Fxp(100.0,True,16,4,callbacks=[raise on overflow]); x.resize(n_word=8) raises; x afterwards', 'ARGUABLE')
def _():
    class Strict:
        def on_status_overflow(self, fxp): raise OverflowError('overflow')
    x = Fxp(100.0, True, 16, 4, callbacks=[Strict()])
    try:
        x.resize(n_word=8)
    except OverflowError:
        pass
    return range_problems(x) + meta_problems(x)

@finding('B3b  logging callback: the object handed to on_status_overflow during x.resize(n_word=8)', 'ARGUABLE')
def _():
    seen = []
    class Log:
        def on_status_overflow(self, fxp): seen.extend(range_problems(fxp) + meta_problems(fxp))
    x = Fxp(100.0, True, 16, 4, callbacks=[Log()])
    x.resize(n_word=8)
    return seen

# ----------------------------------------------------------------------------------------------------------------------
# B4  (ARGUABLE)  a REAL object reports complex upper / lower / precision (value type surviving from a template / earlier call)
# ----------------------------------------------------------------------------------------------------------------------
def limits_problems(z):
    lo, hi = bounds(z)
    p = []
    for name, num in (('upper', hi), ('lower', lo), ('precision', 1)):
        got = getattr(z, name)
        want = Fraction(num, 1) / Fraction(2)**z.n_frac
        if isinstance(got, complex) or Fraction(got) != want:
            p.append('%s=%r, expected %s' % (name, got, want))
    return p

@finding('B4a  c=Fxp(1+1j,True,16,8); r=Fxp(2.5,like=c): r is real (dtype fxp-s16/8), upper must be 32767/256', 'ARGUABLE')
def _():
    c = Fxp(1 + 1j, True, 16, 8); r = Fxp(2.5, like=c)
    assert not np.iscomplexobj(r.val) and r.dtype == 'fxp-s16/8'
    return limits_problems(r)

@finding('B4b  x=Fxp(2.5,True,16,8); x(1+1j); x.resize(n_word=20); x(2.5): real again, upper must be (2**19-1)/256', 'ARGUABLE')
def _():
    x = Fxp(2.5, True, 16, 8); x(1 + 1j); x.resize(n_word=20); x(2.5)
    assert not np.iscomplexobj(x.val) and x.dtype == 'fxp-s20/8'
    return limits_problems(x)

@finding('B4c  real operands, a.config.op_out_like = complex object: z = a + a is real with complex limits', 'ARGUABLE')
def _():
    c = Fxp(1 + 1j, True, 16, 8); a = Fxp(1.5, True, 16, 8); a.config.op_out_like = c
    z = a + a
    assert not np.iscomplexobj(z.val)
    return limits_problems(z)

# ----------------------------------------------------------------------------------------------------------------------
# B5  (BORDERLINE: complex values)  complex codes are kept in complex128 / Python complex: words of 55 bits or more
# ----------------------------------------------------------------------------------------------------------------------
@finding('B5a  Fxp(1e30+0j, True, 64, 0): real part must saturate to 2**63-1', 'BORDERLINE')
def _():
    z = Fxp(1e30 + 0j, True, 64, 0)
    return range_problems(z)

@finding('B5b  Fxp(1e30+0j, True, 55, 0)', 'BORDERLINE')
def _():
    return range_problems(Fxp(1e30 + 0j, True, 55, 0))

@finding("B5c  v0=Fxp(0.25,True,52,52,const_op_sizing='optimal'); z=(3e5+1e3j)*v0 (s104/104): z.val must be an array (it is a bare Python complex: z.shape raises)", 'BORDERLINE')
def _():
    v0 = Fxp(0.25, True, 52, 52, const_op_sizing='optimal'); z = (3e5 + 1e3j) * v0
    p = range_problems(z)
    try:
        z.shape
    except Exception as e:
        p.append('z.shape raises %s' % type(e).__name__)
    return p

@finding('B5d  x=Fxp([0.5,0.25],True,66,64); z=x+1j: complex codes, the dtype string must say -complex', 'BORDERLINE')
def _():
    x = Fxp([0.5, 0.25], True, 66, 64); z = x + 1j
    has_c = any(isinstance(c, complex) for c in codes(z)) or np.iscomplexobj(z.val)
    return [] if (not has_c or z.dtype.endswith('-complex')) else ['dtype %r on complex codes, vdtype %r' % (z.dtype, z.vdtype)]

# ----------------------------------------------------------------------------------------------------------------------
# C  (BORDERLINE)
# ----------------------------------------------------------------------------------------------------------------------
@finding('C1  Fxp([0.0, 1e15], True, 60, 1000): n_frac far beyond the word; 1e15 must be stored as 2**59-1', 'BORDERLINE')
def _():
    return range_problems(Fxp([0.0, 1e15], True, 60, 1000))

@finding('C2a  Fxp(1e305, n_frac=15) (word size inferred) must saturate, not raise', 'BORDERLINE')
def _():
    try:
        z = Fxp(1e305, n_frac=15)
    except OverflowError as e:
        return ['raises OverflowError: %s' % e]
    lo, hi = bounds(z)
    return [] if int(z.val) == hi else ['code %d' % int(z.val)]

@finding('C2b  Fxp(10**400, True, 16, 4, scale=2) must saturate to 32767, not raise', 'BORDERLINE')
def _():
    try:
        z = Fxp(10**400, True, 16, 4, scale=2)
    except OverflowError as e:
        return ['raises OverflowError: %s' % e]
    return [] if int(z.val) == 32767 else ['code %d' % int(z.val)]

@finding('C3  Fxp(0.5, False, 54, 54, scale=3, bias=-3).upper must be the float nearest to 3*(2**54-1)/2**54 - 3 = -3/2**54', 'BORDERLINE')
def _():
    z = Fxp(0.5, False, 54, 54, scale=3, bias=-3)
    want = Fraction(3 * (2**54 - 1), 2**54) - 3        # = -3/2**54, exactly representable
    return [] if Fraction(z.upper) == want else ['upper=%r, exact %s' % (z.upper, want)]

@finding("C4  q=Fxp(0.001,True,8,10,dtype_notation='Q'): q.dtype ('Q-2.10') must be readable back by Fxp(dtype=...)", 'BORDERLINE')
def _():
    q = Fxp(0.001, True, 8, 10, dtype_notation='Q')
    try:
        r = Fxp(0, dtype=q.dtype)
    except ValueError as e:
        return ['dtype %r: %s' % (q.dtype, e)]
    return [] if (r.signed, r.n_word, r.n_frac) == (True, 8, 10) else ['read back as %s' % r.dtype]

def side(tag, f, exact_code):
    """f() -> Fxp scalar whose exact (unsaturated) code is exact_code: must be stored as the bound on that side"""
    @finding(tag, 'BORDERLINE')
    def _():
        z = f()
        lo, hi = bounds(z)
        want = hi if exact_code > hi else lo
        got = int(np.asarray(z.val).reshape(-1)[-1])
        return [] if got == want else ['exact code %d stored as %d, own-side bound is %d' % (exact_code, got, want)]

# C5: results of operations that overflow the destination: int64 / uint64 wrap BEFORE the clamp -> wrong side
side("C5a  Fxp(2**60+1,True,63,0,shifting='trunc') << 3", lambda: Fxp(2**60 + 1, True, 63, 0, shifting='trunc') << 3, (2**60 + 1) << 3)
side("C5b  Fxp(5,True,32,0,shifting='keep') << 63", lambda: Fxp(5, True, 32, 0, shifting='keep') << 63, 5 << 63)
side('C5c  Fxp(4294967295,False,32,0) ** 2', lambda: Fxp(4294967295, False, 32, 0) ** 2, 4294967295**2)
side("C5d  Fxp([2**62-1]*3,True,63,0).sum(sizing='same',method='repr')", lambda: Fxp([2**62 - 1] * 3, True, 63, 0).sum(sizing='same', method='repr'), 3 * (2**62 - 1))
side("C5e  Fxp([2**62-1]*3,True,63,0).cumsum(sizing='same',method='repr')[-1]", lambda: Fxp([2**62 - 1] * 3, True, 63, 0).cumsum(sizing='same', method='repr'), 3 * (2**62 - 1))
side("C5f  x=Fxp([2147483646,2147483647,1,2147483646],False,31,0); dot(x,x,out=Fxp(None,False,54,1),method='repr')",
     lambda: fxpmath.dot(Fxp([2147483646, 2147483647, 1, 2147483646], False, 31, 0), Fxp([2147483646, 2147483647, 1, 2147483646], False, 31, 0), out=Fxp(None, False, 54, 1), method='repr'),
     2 * (2 * 2147483646**2 + 2147483647**2 + 1))
side('C5g  cumprod(Fxp([-2.0,-1.75,1.75,1.75],True,4,2), out=Fxp(None,True,60,60))[-1]  (exact 10.71875)',
     lambda: fxpmath.cumprod(Fxp([-2.0, -1.75, 1.75, 1.75], True, 4, 2), out=Fxp(None, True, 60, 60)), (-8) * (-7) * 7 * 7 * 2**52)

@finding("C6  x=Fxp(3.0,True,16,4); x.set_best_sizes('zz') raises; x afterwards", 'BORDERLINE')
def _():
    x = Fxp(3.0, True, 16, 4)
    try:
        x.set_best_sizes('zz')
    except ValueError:
        pass
    if x.n_word is None or x.n_frac is None:
        return ['n_word=%r n_frac=%r dtype=%r' % (x.n_word, x.n_frac, x.dtype)]
    return range_problems(x) + meta_problems(x)

n_inside = sum(1 for cls, bad in RESULTS if cls == 'INSIDE' and bad)
n_all = sum(1 for cls, bad in RESULTS if bad)
print('-- %d violations (%d classed INSIDE) out of %d checks; fxpmath from %s' % (n_all, n_inside, len(RESULTS), os.path.dirname(fxpmath.__file__)))
sys.exit(1 if n_inside else 0)
