#!/usr/bin/env python
"""Re-checks the C11 findings (binary / hex strings are faithful images of the code and parse back to it).

One line per finding, starting with "VIOLATION" or "holds".  Exit status 1 if a clearly-inside finding is violated.
The expected values are computed with Python integers only.
"""
import os, sys, io, contextlib
sys.path.insert(0, os.environ.get('FXP_REPO', '/repo'))
import numpy as np
import fxpmath
from fxpmath import Fxp

inside_violated = False


def obin(code, n_word, n_frac=None, prefix=''):
    """oracle: two's-complement image of `code`, n_word characters, point n_frac digits from the right"""
    s = format(code % (1 << n_word), '0{}b'.format(n_word))
    if n_frac is not None:
        s = s + '.' if n_frac == 0 else s[:n_word - n_frac] + '.' + s[n_word - n_frac:]
    return prefix + s


def tolist(v):
    if isinstance(v, np.ndarray):
        return [tolist(u) for u in v] if v.ndim else v.item()
    if isinstance(v, (list, tuple)):
        return [tolist(u) for u in v]
    if isinstance(v, np.generic):
        return v.item()
    return v


def run(f):
    try:
        with contextlib.redirect_stdout(io.StringIO()):
            return tolist(f())
    except Exception as e:
        return 'EXC ' + repr(e)[:90]


def report(name, inside, results, expected):
    """results: list of (label, got)"""
    global inside_violated
    bad = [(l, g) for l, g in results if g != expected]
    if bad:
        if inside:
            inside_violated = True
        print('VIOLATION {} [{}]: expected code(s) {}; got {}'.format(
            name, 'INSIDE' if inside else 'BORDERLINE', expected, '; '.join('{} -> {}'.format(l, g) for l, g in bad)))
    else:
        print('holds {} [{}]'.format(name, 'INSIDE' if inside else 'BORDERLINE'))


# ---------------------------------------------------------------------------------------------------------------
# F1 (INSIDE): a binary string rendered with the point (bin(frac_dot=True)) fed back in raw=True mode
# ---------------------------------------------------------------------------------------------------------------
# F1a scalar, s8/4, code -52
signed, n_word, n_frac, code = True, 8, 4, -52
x = Fxp(code, signed, n_word, n_frac, raw=True)
s = x.bin(frac_dot=True, prefix='0b')
assert s == obin(code, n_word, n_frac, '0b'), s          # the rendering itself is right: '0b1100.1100'
report('F1a raw=True parse of bin(frac_dot=True) string, scalar s8/4 code -52', True, [
    ('Fxp(s, True, 8, 4, raw=True)', run(lambda: Fxp(s, signed, n_word, n_frac, raw=True).val)),
    ('Fxp(s, like=x, raw=True)', run(lambda: Fxp(s, like=x, raw=True).val)),
    ('set_val(s, raw=True)', run(lambda: Fxp(None, signed, n_word, n_frac).set_val(s, raw=True).val)),
    ('x.from_bin(s, raw=True)', run(lambda: Fxp(None, signed, n_word, n_frac).from_bin(x.bin(frac_dot=True), raw=True).val)),
    ('fxpmath.from_bin(s, raw=True, like=x)', run(lambda: fxpmath.from_bin(x.bin(frac_dot=True), raw=True, like=x).val)),
], code)

# F1b 2-D array, u8/1
codes = [[5, 255], [128, 1]]
xa = Fxp(np.array(codes), False, 8, 1, raw=True)
sa = xa.bin(frac_dot=True, prefix='0b')
assert tolist(sa) == [[obin(c, 8, 1, '0b') for c in r] for r in codes]
report('F1b raw=True parse of bin(frac_dot=True) strings, 2-D array u8/1', True, [
    ('Fxp(sa, False, 8, 1, raw=True)', run(lambda: Fxp(sa, False, 8, 1, raw=True).val)),
    ('from_bin(sa, raw=True)', run(lambda: Fxp(None, False, 8, 1).from_bin(sa, raw=True).val)),
], codes)

# F1c n_frac = 0 (point at the right end), 64-bit word: the digits go through a float64
code = 2**62 + 1
xw = Fxp(code, True, 64, 0, raw=True)
sw = xw.bin(frac_dot=True, prefix='0b')
assert sw == obin(code, 64, 0, '0b')
report('F1c raw=True parse of bin(frac_dot=True) string, s64/0 code 2**62+1', True, [
    ('Fxp(sw, True, 64, 0, raw=True)', run(lambda: Fxp(sw, True, 64, 0, raw=True).val)),
    ('from_bin(sw, raw=True)', run(lambda: Fxp(None, True, 64, 0).from_bin(sw, raw=True).val)),
], code)

# F1d n_frac = n_word, every code of s4/4 : all codes collapse to 0
codes = list(range(-8, 8))
x4 = Fxp(np.array(codes), True, 4, 4, raw=True)
report('F1d raw=True parse of bin(frac_dot=True) strings, all 16 codes of s4/4', True, [
    ('set_val(strings, raw=True)', run(lambda: Fxp(None, True, 4, 4).set_val(x4.bin(frac_dot=True, prefix='0b'), raw=True).val)),
], codes)

# control: the same strings in value mode, and the undotted strings in raw mode, do round-trip
report('control: value-mode parse of the dotted string / raw parse of the undotted string (s8/4 code -52)', True, [
    ('Fxp(s, True, 8, 4)', run(lambda: Fxp(s, True, 8, 4).val)),
    ('Fxp(x.bin(prefix="0b"), True, 8, 4, raw=True)', run(lambda: Fxp(x.bin(prefix='0b'), True, 8, 4, raw=True).val)),
    ('Fxp(x.hex(), True, 8, 4, raw=True)', run(lambda: Fxp(x.hex(), True, 8, 4, raw=True).val)),
], -52)

# ---------------------------------------------------------------------------------------------------------------
# BORDERLINE findings (features the property does not name)
# ---------------------------------------------------------------------------------------------------------------
# B1 complex objects
xc = Fxp(-3 - 12j, True, 8, 4, raw=True)
exp_c = complex(-3, -12)
sc_bin = xc.bin(prefix='0b')        # a 0-d object ndarray holding '0b11111101+0b11110100j'
sc_hex = xc.hex()
report('B1a complex scalar: rendered bin()/hex() object (0-d object ndarray) fed back as it is', False, [
    ('Fxp(xc.bin(prefix="0b"), True, 8, 4)', run(lambda: Fxp(sc_bin, True, 8, 4).val)),
    ('Fxp(xc.hex(), True, 8, 4)', run(lambda: Fxp(sc_hex, True, 8, 4).val)),
], exp_c)
report('B1b complex scalar: str(bin) in raw=True mode, str(hex) in either mode', False, [
    ('Fxp(str(bin), True, 8, 4, raw=True)', run(lambda: Fxp(str(sc_bin), True, 8, 4, raw=True).val)),
    ('Fxp(str(hex), True, 8, 4)', run(lambda: Fxp(str(sc_hex), True, 8, 4).val)),
    ('Fxp(str(hex), True, 8, 4, raw=True)', run(lambda: Fxp(str(sc_hex), True, 8, 4, raw=True).val)),
], exp_c)

# B2 prefix=False
report('B2 bin(prefix=False) / hex(prefix=False) (prefix=True selects the default prefix)', False, [
    ('x.bin(prefix=False)', run(lambda: x.bin(prefix=False))),
], obin(-52, 8))
report('B2 hex(prefix=False)', False, [('x.hex(prefix=False)', run(lambda: x.hex(prefix=False)))], 'CC')

# B3 tuple carrier through from_bin (set_val accepts the same tuple)
report('B3 from_bin of a tuple of strings', False, [
    ('from_bin(("0b00010000",))', run(lambda: Fxp(None, True, 8, 4).from_bin(('0b00010000',)).val)),
], [16])

# B4 scaled object, value mode
xs = Fxp(-52, True, 8, 4, raw=True, scale=2, bias=1)
report('B4 scaled object (scale=2, bias=1): value-mode parse of its own bin() string', False, [
    ('Fxp(xs.bin(prefix="0b"), like=xs)', run(lambda: Fxp(xs.bin(prefix='0b'), like=xs).val)),
], -52)

# B5 signed 1-bit word (the property starts the round trip at n_word = 2)
x1 = Fxp(-1, True, 1, 0, raw=True)
report('B5 signed 1-bit word: parse of its bin() string', False, [
    ('Fxp("0b1", True, 1, 0)', run(lambda: Fxp(x1.bin(prefix='0b'), True, 1, 0).val)),
], -1)

# B6 bin_prefix=True in the configuration (bin(prefix=True) gives '0b')
report('B6 Fxp(..., bin_prefix=True).bin()', False, [
    ('bin()', run(lambda: Fxp(-52, True, 8, 4, raw=True, bin_prefix=True).bin())),
], '0b' + obin(-52, 8))

sys.exit(1 if inside_violated else 0)
