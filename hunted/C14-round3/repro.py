#!/usr/bin/env python
"""
C14 (shifts) - re-check of the findings of hunt 3.

Imports fxpmath from $FXP_REPO (default /repo).
Prints one line per finding, starting with "VIOLATION" or "holds".
Exit status 1 if a CLEARLY-INSIDE finding is violated, else 0.

There is no clearly-inside *value* violation.  F1 is inside the quantifier but is a violation only under the strict
reading of "identity" / "grows as needed" that includes the format (dtype); it counts for the exit status only when
the environment variable C14_STRICT_FORMAT=1 is set.  B1..B5 are borderline and never count.
"""
import os, sys, warnings
sys.path.insert(0, os.environ.get('FXP_REPO', '/repo'))
warnings.simplefilter('ignore')
from fractions import Fraction
import numpy as np
import fxpmath
from fxpmath import Fxp

STRICT = os.environ.get('C14_STRICT_FORMAT', '0') == '1'
print('# fxpmath from', os.path.dirname(fxpmath.__file__))

def raws(y):
    return [int(v) for v in np.asarray(y.val).flatten().tolist()]

def values(y):
    return [Fraction(v) / Fraction(2) ** y.n_frac for v in raws(y)]

def bounds(signed, w):
    return (-(1 << (w - 1)), (1 << (w - 1)) - 1) if signed else (0, (1 << w) - 1)

inside_violated = False
strict_violated = False

def line(violated, tag, msg):
    print(('VIOLATION' if violated else 'holds') + ' ' + tag + ': ' + msg)

# ----------------------------------------------------------------------------------------------------------------
# S0 (sanity; inside): the core property, exhaustively for n_word <= 6 (all codes, signed / unsigned,
# n_frac in {0, n_word//2}, counts 0..n_word+3, the three shifting modes, scalars and a whole-range array)
# ----------------------------------------------------------------------------------------------------------------
def core_check(x, codes, n):
    """exact oracle from the codes; returns None or a description of the first discrepancy"""
    signed, w, f, mode = x.signed, x.n_word, x.n_frac, x.config.shifting
    before = (x.val.copy(), x.dtype, dict(x.status))
    xv = [Fraction(c, 2 ** f) for c in codes]
    for op in ('<<', '>>'):
        y = (x << n) if op == '<<' else (x >> n)
        if not (np.array_equal(before[0], x.val) and before[1] == x.dtype and before[2] == x.status):
            return 'operand modified by ' + op
        lo, hi = bounds(y.signed, y.n_word)
        if any(not (lo <= r <= hi) for r in raws(y)):
            return 'raw code outside the format of the result'
        if mode == 'expand':
            exp = [v * 2 ** n if op == '<<' else v / 2 ** n for v in xv]
            if values(y) != exp:
                return '%s %s %d expand: %s != %s' % (x.dtype, op, n, values(y)[:3], exp[:3])
        else:
            if (y.signed, y.n_word, y.n_frac) != (signed, w, f):
                return '%s %s %d %s: format changed to %s' % (x.dtype, op, n, mode, y.dtype)
            lo, hi = bounds(signed, w)
            for c, r in zip(codes, raws(y)):
                if op == '>>':
                    ok = [c >> n]
                else:
                    t = c << n
                    wr = t % (1 << w)
                    if signed and wr >= (1 << (w - 1)):
                        wr -= 1 << w
                    ok = [t] if lo <= t <= hi else [max(lo, min(hi, t)), wr]
                if r not in ok:
                    return '%s code %d %s %d %s: %d not in %s' % (x.dtype, c, op, n, mode, r, ok)
        if [Fraction(g) for g in np.asarray(y()).flatten().tolist()] != values(y):
            return 'value view of the result differs from its codes'
    return None

first = None
ncases = 0
for w in range(1, 7):
    for signed in (True, False):
        lo, hi = bounds(signed, w)
        for f in sorted({0, w // 2}):
            for mode in ('expand', 'trunc', 'keep'):
                for n in range(0, w + 4):
                    for c in range(lo, hi + 1):
                        x = Fxp(c, signed, w, f, raw=True, shifting=mode)
                        first = first or core_check(x, [c], n)
                        ncases += 1
                    allc = list(range(lo, hi + 1))
                    x = Fxp(np.array(allc), signed, w, f, raw=True, shifting=mode)
                    first = first or core_check(x, allc, n)
if first:
    inside_violated = True
line(bool(first), 'S0 [inside] core property, exhaustive n_word<=6 (%d scalar cases + arrays)' % ncases,
     first or 'values, formats, arithmetic >>, clamp-or-wrap <<, operand untouched - all as the property demands')

# ----------------------------------------------------------------------------------------------------------------
# F1 (inside the quantifier; format only): x << 0 is not the identity on the format for the most negative code
# ----------------------------------------------------------------------------------------------------------------
bad = []
for w in range(1, 7):
    for f in sorted({0, w // 2}):
        c = -(1 << (w - 1))
        x = Fxp(c, True, w, f, raw=True)          # default shifting = 'expand'
        y = x << 0
        assert values(y) == values(x)              # the value IS preserved
        if (y.signed, y.n_word, y.n_frac) != (x.signed, x.n_word, x.n_frac):
            bad.append('%s(code %d) << 0 -> %s' % (x.dtype, c, y.dtype))
x = Fxp([-8, 3], True, 4, 0)
y = x << 0
if y.n_word != 4:
    bad.append('array [-8, 3] %s << 0 -> %s' % (x.dtype, y.dtype))
if bad:
    strict_violated = True
line(bool(bad), 'F1 [inside quantifier, FORMAT only - counts for the exit status only with C14_STRICT_FORMAT=1]',
     ('shift by zero changes the format (value kept): ' + '; '.join(bad[:4]) + (' ... (%d cases)' % len(bad) if len(bad) > 4 else ''))
     if bad else 'x << 0 keeps the format of the most negative code')

# ----------------------------------------------------------------------------------------------------------------
# B1 (borderline: NumPy-dispatch form): np.right_shift(x, n) / np.left_shift(x, n) are not x >> n / x << n
# ----------------------------------------------------------------------------------------------------------------
x = Fxp([3, -4, 5], True, 8, 0)                    # expand mode
y = np.right_shift(x, 1)
exp = [Fraction(3, 2), Fraction(-2), Fraction(5, 2)]
v1 = isinstance(y, Fxp) and values(y) != exp
xt = Fxp([3, -4, 5], True, 8, 0, shifting='trunc')
yt = np.left_shift(xt, 1)
v2 = isinstance(yt, Fxp) and (yt.n_word, yt.n_frac) != (8, 0)
try:
    np.right_shift(Fxp([1.5, -2.0], True, 8, 4), 1)
    v3 = False
except TypeError:
    v3 = True
line(v1 or v2 or v3, 'B1 [borderline] NumPy-dispatch form',
     'np.right_shift(Fxp([3,-4,5],s8/0), 1) = %s (operator gives 1.5,-2,2.5); trunc-mode np.left_shift changes the format to %s; fractional operand raises TypeError: %s'
     % ([str(v) for v in values(y)] if isinstance(y, Fxp) else y, yt.dtype if isinstance(yt, Fxp) else type(yt), v3))

# ----------------------------------------------------------------------------------------------------------------
# B2 (borderline: count carried by an Fxp): expand-mode x << Fxp(3) does not grow the word and saturates
# ----------------------------------------------------------------------------------------------------------------
x = Fxp([100, -3], True, 8, 0)
try:
    y = x << Fxp(3)
    v = values(y) != [Fraction(800), Fraction(-24)]
    msg = 'Fxp([100,-3],s8/0) << Fxp(3) = %s in %s (exact: 800, -24)' % ([str(q) for q in values(y)], y.dtype)
except Exception as e:
    v, msg = False, 'raises ' + repr(e)[:80]
line(v, 'B2 [borderline] shift count given as an Fxp, expand mode', msg)

# ----------------------------------------------------------------------------------------------------------------
# B3 (borderline: configuration inheritance): the result of a trunc-mode << has the DEFAULT configuration
# ----------------------------------------------------------------------------------------------------------------
x = Fxp(3, True, 8, 0, shifting='trunc', overflow='wrap')
x <<= 1
cfg = (x.config.shifting, x.config.overflow)
x <<= 6
v = cfg != ('trunc', 'wrap') or x.n_word != 8
r = Fxp(3, True, 8, 0, shifting='trunc', overflow='wrap') >> 1
line(v, 'B3 [borderline] trunc-mode "x <<= 1; x <<= 6"',
     'after the first shift config is (shifting, overflow) = %s, after the second the format is %s value %s '
     '(>> keeps the configuration: %s)' % (cfg, x.dtype, x(), (r.config.shifting, r.config.overflow)))

# ----------------------------------------------------------------------------------------------------------------
# B4 (borderline: class-level template): results are built from Fxp.template
# ----------------------------------------------------------------------------------------------------------------
saved = Fxp.template
try:
    x = Fxp(3, True, 8, 0)
    Fxp.template = Fxp(None, True, 16, 8, scale=2, bias=1)
    a = (x << 1)()
    Fxp.template = Fxp(None, dtype='fxp-s16/8-complex')
    b = (x >> 1).dtype
finally:
    Fxp.template = saved
line(a != 6 or 'complex' in b, 'B4 [borderline] Fxp.template set after x was made',
     'scaled template: (Fxp(3,s8/0) << 1)() = %s (exact 6); complex template: (x >> 1).dtype = %s' % (a, b))

# ----------------------------------------------------------------------------------------------------------------
# B5 (outside: count carriers / negative counts): inconsistent acceptance, silent results
# ----------------------------------------------------------------------------------------------------------------
x = Fxp([100, -3], True, 8, 0)
def tr(f):
    try:
        y = f()
        return '%s %s' % (y.dtype, raws(y))
    except Exception as e:
        return type(e).__name__
res = {'<< 3.0': tr(lambda: x << 3.0), '<< np.float64(3)': tr(lambda: x << np.float64(3)), '<< -1': tr(lambda: x << -1), '>> -1': tr(lambda: x >> -1)}
line(res['<< 3.0'] != res['<< np.float64(3)'] or 'Error' not in res['<< -1'], 'B5 [outside] other count carriers', str(res))

sys.exit(1 if (inside_violated or (STRICT and strict_violated)) else 0)
