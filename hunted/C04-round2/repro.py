#!/usr/bin/env python
"""Reproducers for the C04 (status flags / callbacks) violations. Exit code 1 if any reproduces."""
import os, sys, warnings
sys.path.insert(0, os.environ.get('FXP_REPO', '/repo'))
warnings.simplefilter('ignore')
import numpy as np
from decimal import Decimal
from fractions import Fraction as F
import fxpmath
from fxpmath import Fxp
from fxpmath.callbacks import Callback

found = 0
def flags(x):
    return (bool(x.status['overflow']), bool(x.status['underflow']), bool(x.status['inaccuracy']))
def codes(x):
    v = np.asarray(x.val)
    if np.iscomplexobj(v):
        return [(int(c.real), int(c.imag)) for c in v.flatten().tolist()]
    return [int(c) for c in v.flatten().tolist()]
def check(title, got, expected):
    """got / expected: (flags (o,u,i), codes) ; None entries are not compared"""
    global found
    bad = any(e is not None and g != e for g, e in zip(got, expected))
    if bad:
        found += 1
        print('VIOLATION {}: got {} expected {}'.format(title, got, expected))
    else:
        print('ok        {}: got {}'.format(title, got))
def run(title, fn):
    try:
        fn()
    except Exception as e:
        print('error     {}: {}: {}'.format(title, type(e).__name__, e))

# ---------------------------------------------------------------------------------------------------------
# F1  scalar raw results in [2**63, 2**64) are reinterpreted as negative int64
def f1a():
    x = Fxp(2**32 - 1, False, 32, 0); x.config.op_sizing = 'same'
    z = x * x                                   # exact product 2**64 - 2**33 + 1  >> max of fxp-u32/0
    check('F1a u32*u32 (op_sizing=same) overflow -> underflow flag, stores 0', (flags(z), codes(z)), ((True, False, True), [2**32 - 1]))
def f1b():
    x = Fxp(2**32 - 1, False, 32, 0); out = Fxp(None, True, 40, 0)
    z = fxpmath.mul(x, x, out=out)
    check('F1b u32*u32 into out=fxp-s40/0: no flag at all, negative value stored', (flags(z), codes(z)), ((True, False, True), [2**39 - 1]))
def f1c():
    x = Fxp(0.5, True, 2, 1); y = Fxp(1576, False, 8, -3); out = Fxp(None, True, 2, 53)
    z = fxpmath.add(x, y, out=out)
    check('F1c 0.5+1576 into out=fxp-s2/53', (flags(z), codes(z)), ((True, False, True), [1]))
def f1d():
    o = Fxp(None, True, 8, 0); o.set_val(np.uint64(2**63), raw=True)
    check('F1d set_val(np.uint64(2**63), raw=True) into fxp-s8/0', (flags(o), codes(o)), ((True, False, True), [127]))
def f1e():
    x = Fxp(255, False, 8, 0, shifting='trunc'); z = x << 56       # 255 * 2**56 >> 255
    check('F1e u8 255 << 56 (shifting=trunc)', (flags(z), codes(z)), ((True, False, True), [255]))
for t, f in [('F1a', f1a), ('F1b', f1b), ('F1c', f1c), ('F1d', f1d), ('F1e', f1e)]: run(t, f)

# ---------------------------------------------------------------------------------------------------------
# F2  complex64 carriers: float32 arithmetic in the complex branch of set_val
def f2a():
    x = Fxp(np.complex64(2**25), False, 25, 0)
    check('F2a complex64 scalar 2**25 into fxp-u25/0: overflow flag missing', (flags(x), codes(x)), ((True, False, True), [(2**25 - 1, 0)]))
def f2b():
    x = Fxp(np.array([1, 2**30], dtype=np.complex64), True, 31, 0)
    check('F2b complex64 array [1, 2**30] into fxp-s31/0: no flag, out-of-range code stored', (flags(x), codes(x)), ((True, False, True), [(1, 0), (2**30 - 1, 0)]))
def f2c():
    x = Fxp([np.complex64(2**25)], False, 25, 0, overflow='wrap')
    check('F2c list of complex64, wrap', (flags(x), codes(x)), ((True, False, True), [(0, 0)]))
for t, f in [('F2a', f2a), ('F2b', f2b), ('F2c', f2c)]: run(t, f)

# ---------------------------------------------------------------------------------------------------------
# F3  scaled objects: the affine map is evaluated in int64 / float64 before the flags are computed
def f3a():
    x = Fxp(2**63 - 8, True, 16, 0, scale=1, bias=-8)      # (v - bias)/scale = 2**63
    check('F3a scaled (bias=-8) int 2**63-8 into fxp-s16/0', (flags(x), codes(x)), ((True, False, True), [32767]))
def f3b():
    x = Fxp(np.array([2**63 + 100], dtype=np.uint64), True, 33, -1, scale=1, bias=100)
    check('F3b scaled (bias=100) uint64 array into fxp-s33/-1', (flags(x), codes(x)), ((True, False, True), [2**32 - 1]))
def f3c():
    v = -(2**53 + 1)
    x = Fxp(v, True, 52, 0, scale=4, bias=0.5, rounding='floor')   # exact code floor(-2**51 - 0.375) = -2**51 - 1 < min
    check('F3c scaled (scale=4, bias=0.5) int -(2**53+1) into fxp-s52/0, floor', (flags(x), codes(x)), ((False, True, True), [-2**51]))
def f3d():
    x = Fxp(1e-20, True, 16, 0, scale=1, bias=1.0)         # stored value 0.0 != 1e-20
    check('F3d scaled (bias=1.0) 1e-20 into fxp-s16/0: inaccuracy missing', (flags(x), codes(x)), ((False, False, True), [-1]))
for t, f in [('F3a', f3a), ('F3b', f3b), ('F3c', f3c), ('F3d', f3d)]: run(t, f)

# ---------------------------------------------------------------------------------------------------------
# F4  arithmetic that does not carry the inaccuracy flag of its operand
def f4():
    a = Fxp([0.3, 0.3], True, 16, 4)
    assert a.status['inaccuracy']
    ops = [('a << 1', lambda: a << 1), ('a >> 1', lambda: a >> 1), ('np.negative(a)', lambda: np.negative(a)),
           ('np.abs(a)', lambda: np.abs(a)), ('np.square(a)', lambda: np.square(a)), ('np.matmul(a, a)', lambda: np.matmul(a, a)),
           ('a.mean()', lambda: a.mean()), ('fxp_sum(a)', lambda: fxpmath.fxp_sum(a)), ('a[0] + a[1]', lambda: a[0] + a[1])]
    for name, op in ops:
        try:
            r = op()
            check('F4 inaccuracy not propagated by ' + name, (bool(r.status['inaccuracy']),), (True,))
        except Exception as e:
            print('error     F4 {}: {}'.format(name, e))
run('F4', f4)

# ---------------------------------------------------------------------------------------------------------
# F5  left shift with shifting='trunc' / 'keep': the int64 shift wraps before the write
def f5a():
    x = Fxp(2**50, True, 52, 0, shifting='trunc'); z = x << 13
    check('F5a s52 2**50 << 13 (trunc)', (flags(z), codes(z)), ((True, False, True), [2**51 - 1]))
def f5b():
    x = Fxp(1, True, 8, 0, shifting='trunc'); z = x << 64
    check('F5b s8 1 << 64 (trunc): no flag, 0 stored', (flags(z), codes(z)), ((True, False, True), [127]))
for t, f in [('F5a', f5a), ('F5b', f5b)]: run(t, f)

# ---------------------------------------------------------------------------------------------------------
# F6  inaccuracy is compared against the value left after a lossy carrier conversion, not against the input
def f6a():
    x = Fxp(Decimal('0.3'), True, 8, 4)
    check('F6a Decimal("0.3") into fxp-s8/4 (stored 0.25)', (flags(x), codes(x)), ((False, False, True), [4]))
def f6b():
    x = Fxp(np.array([1, 0.3], dtype=object), True, 8, 1)
    check('F6b object array [1, 0.3] into fxp-s8/1 (0.3 stored as 0)', (flags(x), codes(x)), ((False, False, True), [2, 0]))
def f6c():
    x = Fxp([2**53 + 1, 4.0], False, 52, -2)
    check('F6c list [2**53+1, 4.0] into fxp-u52/-2 (stored 2**53)', (flags(x), codes(x)), ((False, False, True), [2**51, 1]))
def f6d():
    if not hasattr(np, 'longdouble') or np.finfo(np.longdouble).nmant <= 52:
        print('skip      F6d (no extended long double)'); return
    v = np.longdouble(8) - np.longdouble(2)**-60
    x = Fxp(v, True, 8, 4)            # trunc(v * 16) = 127: in range
    check('F6d longdouble scalar 8 - 2**-60 into fxp-s8/4: spurious overflow', (flags(x), codes(x)), ((False, False, True), [127]))
    v = np.longdouble(1) + np.longdouble(2)**-60
    x = Fxp(v, True, 8, 4)
    check('F6d longdouble scalar 1 + 2**-60 into fxp-s8/4: inaccuracy missing', (flags(x), codes(x)), ((False, False, True), [16]))
def f6e():
    x = Fxp('0b01.11', True, 8, 1)    # 1.75 -> code 3 (1.5) with the default trunc
    check('F6e binary string 0b01.11 into fxp-s8/1 (stored 3.5)', (flags(x), codes(x)), ((False, False, True), [3]))
def f6f():
    x = Fxp([0, 0], True, 8, 0); x[0] = 1 + 2j
    check('F6f x[0] = 1+2j into a real fxp-s8/0 array (imaginary part dropped)', (flags(x)[2],), (True,))
for t, f in [('F6a', f6a), ('F6b', f6b), ('F6c', f6c), ('F6d', f6d), ('F6e', f6e), ('F6f', f6f)]: run(t, f)

# ---------------------------------------------------------------------------------------------------------
# B  borderline items (reported, not counted in the exit code)
class CB(Callback):
    def __init__(self): self.log = []
    def on_value_change(self, o, logs=None): self.log.append('value')
    def on_status_overflow(self, o, logs=None): self.log.append('overflow')
    def on_status_underflow(self, o, logs=None): self.log.append('underflow')
    def on_status_inaccuracy(self, o, logs=None): self.log.append('inaccuracy')
def borderline():
    cb = CB(); x = Fxp(0.5, True, 8, 4, callbacks=[cb])
    print('borderline B1 constructor with callbacks: notifications for one write =', cb.log)
    x = Fxp(1.0, True, 8, 4); y = x.copy(); y(100.0)
    print('borderline B2 x.copy() shares the status record: x never written, x.status =', flags(x))
    x = Fxp([1, 2, 3], True, 8, 0); y = x[0:2]; y[0] = 1000
    print('borderline B3 slice view write-through: x.val =', codes(x), 'x flags =', flags(x))
    z = Fxp(1, True, 8, 0) / Fxp(3, True, 8, 0)
    print('borderline B4 raw 1/3 =', z(), 'inaccuracy =', flags(z)[2])
run('B', borderline)

print('\n{} violation(s) reproduced'.format(found))
sys.exit(1 if found else 0)
