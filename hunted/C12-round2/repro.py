import os, sys, warnings
sys.path.insert(0, os.environ.get('FXP_REPO', '/repo'))
warnings.simplefilter('ignore')
import numpy as np
import fxpmath
from fxpmath import Fxp

viol = 0
def report(title, got, expected):
    global viol
    viol += 1
    print('VIOLATION %s: got %r expected %r' % (title, got, expected))

def tup(x):
    return (x.signed, x.n_word, x.n_frac, x.vdtype == complex or 'complex' in x.get_dtype('fxp'))

# ---- F1: constructor with a real value drops the complex suffix of dtype=x.dtype
x = Fxp(1 + 2j, True, 16, 8)                       # 'fxp-s16/8-complex'
for v in (0, 1.5, [1, 2], np.array([1.0]), '0b0101'):
    y = Fxp(v, dtype=x.dtype)
    if y.dtype != x.dtype or tup(y) != tup(x):
        report('F1 Fxp(%r, dtype=%r) loses the complex suffix' % (v, x.dtype), (y.dtype, tup(y)), (x.dtype, tup(x)))
# same format through resize() keeps it -> constructor and resize disagree
z = Fxp(1.5); z.resize(dtype=x.dtype)
y = Fxp(1.5, dtype=x.dtype)
if z.dtype != y.dtype:
    report('F1b constructor and resize(dtype=) disagree for the same real value', y.dtype, z.dtype)
# consequence: a buffer declared complex silently discards imaginary parts
buf = Fxp([0.0, 0.0], dtype=x.dtype); buf[0] = 1 + 2j
if buf[0]() != (1 + 2j):
    report('F1c Fxp([0,0], dtype=complex dtype)[0] = 1+2j', buf[0](), 1 + 2j)

# ---- F2: fxp_sum(dtype=x.dtype) (utils.get_sizes_from_dtype) only understands the lower-case fxp spelling
a = Fxp([1, 2, 3], True, 16, 4, dtype_notation='Q')
for title, d in (('F2a fxp_sum(a, dtype=a.dtype) with dtype_notation="Q"', a.dtype),
                 ('F2b fxp_sum(a, dtype="S12.4")', 'S12.4'),
                 ('F2c fxp_sum(a, dtype=upper-case fxp string)', a.get_dtype('fxp').upper())):
    try:
        r = fxpmath.fxp_sum(a, dtype=d)
        if (r.signed, r.n_word, r.n_frac) != (True, 16, 4) or r() != 6:
            report(title, (r.dtype, r()), ('fxp-s16/4', 6))
    except Exception as e:
        report(title + ' [dtype=%r]' % d, repr(e), 'Fxp fxp-s16/4 holding 6')
# F2d complex suffix accepted but ignored
r = fxpmath.fxp_sum(Fxp([1, 2, 3], True, 16, 4), dtype='fxp-s20/2-complex')
if r.dtype != 'fxp-s20/2-complex':
    report('F2d fxp_sum(real x, dtype="fxp-s20/2-complex")', r.dtype, 'fxp-s20/2-complex')

# ---- F3 (borderline): x.dtype is stale after the configured notation is changed
x = Fxp(1.5, True, 16, 8)
x.config.dtype_notation = 'Q'
d1 = x.dtype
d2 = x.get_dtype()
if d1 != d2:
    report('F3 (borderline) x.dtype after x.config.dtype_notation="Q"', d1, d2)

# ---- F4 (borderline): the Q spelling has no complex marker -> dtype=x.dtype does not reproduce a complex x
x = Fxp(1 + 2j, True, 16, 8, dtype_notation='Q')
y = Fxp(None, dtype=x.dtype)
if tup(y) != tup(x):
    report('F4 (borderline) Fxp(None, dtype=x.dtype) for complex x in Q notation (%r)' % x.dtype, tup(y), tup(x))

sys.exit(1 if viol else 0)
