#!/usr/bin/env python
# Reproducers for the C06 (size inference) hunt. fxpmath is imported from $FXP_REPO (default /repo).
import os, sys, warnings
sys.path.insert(0, os.environ.get('FXP_REPO', '/repo'))
warnings.simplefilter('ignore')
from fractions import Fraction as F
import numpy as np
from fxpmath import Fxp

violations = 0

def exact_vals(x):
    return [F(int(r)) / F(2) ** x.n_frac for r in np.asarray(x.val).flatten().tolist()]

def flags(x):
    return sorted(k for k, v in x.status.items() if v and k != 'extended_prec')

def describe(x):
    return '%s values=%s flags=%s' % (x.dtype, [str(v) for v in exact_vals(x)], flags(x))

def check(title, build, exp_dtype, exp_vals, exp_flags=()):
    """build() -> Fxp ; the property demands format exp_dtype, the exact values exp_vals and the flags exp_flags."""
    global violations
    expected = '%s values=%s flags=%s' % (exp_dtype, [str(F(v)) for v in exp_vals], sorted(exp_flags))
    try:
        x = build()
        got = describe(x)
        ok = (x.dtype == exp_dtype and exact_vals(x) == [F(v) for v in exp_vals] and flags(x) == sorted(exp_flags))
    except Exception as e:
        got = 'exception %r' % (e,)
        ok = False
    if not ok:
        violations += 1
        print('VIOLATION %s: got %s expected %s' % (title, got, expected))
    else:
        print('ok        %s: %s' % (title, got))

# ---------------------------------------------------------------------------------------------------
# Finding 1: object-dtype array whose first element is an int: the fractional elements are truncated
#            silently (format inferred correctly, stored values wrong, no 'inaccuracy' flag)
check('F1a object array [4, 0.5] stored as [4, 0] without any flag',
      lambda: Fxp(np.array([4, 0.5], dtype=object)), 'fxp-s5/1', [4, F(1, 2)])
check('F1b object array [1, 0.5, -0.25] with n_word=16 stored as [1, 0, 0] without any flag',
      lambda: Fxp(np.array([1, 0.5, -0.25], dtype=object), n_word=16), 'fxp-s16/2', [1, F(1, 2), F(-1, 4)])
check('F1c object array [4, 0.5] with n_frac=3 stored as [4, 0] without any flag',
      lambda: Fxp(np.array([4, 0.5], dtype=object), n_frac=3), 'fxp-s7/3', [4, F(1, 2)])
check('F1d object array mixing a NumPy scalar and Python floats raises AttributeError',
      lambda: Fxp(np.array([np.float64(4.0), 0.5, 3], dtype=object)), 'fxp-s5/1', [4, F(1, 2), 3])

# ---------------------------------------------------------------------------------------------------
# Finding 2: only n_frac given and negative: ValueError('negative shift count') instead of the minimal word
check('F2a Fxp(1024, n_frac=-4) raises instead of giving s8/-4',
      lambda: Fxp(1024, n_frac=-4), 'fxp-s8/-4', [1024])
check('F2b Fxp([1024., -4096.], n_frac=-7) raises instead of giving s7/-7',
      lambda: Fxp([1024., -4096.], n_frac=-7), 'fxp-s7/-7', [1024, -4096])
check('F2c Fxp(64, raw=True, n_frac=-4) raises instead of giving s8/-4',
      lambda: Fxp(64, raw=True, n_frac=-4), 'fxp-s8/-4', [1024])
check('F2d Fxp(48, signed=False, n_frac=-4) raises instead of giving u2/-4',
      lambda: Fxp(48, signed=False, n_frac=-4), 'fxp-u2/-4', [48])

# ---------------------------------------------------------------------------------------------------
# Finding 3: only n_frac given (fewer than the exact fraction bits) and a rounding mode that rounds away from
#            zero: the inferred word cannot hold the rounded value -> overflow / underflow flag and saturation
check('F3a Fxp(-4.25, n_frac=1, rounding=floor): inferred s4/1 cannot hold floor(-8.5)=-9',
      lambda: Fxp(-4.25, n_frac=1, rounding='floor'), 'fxp-s5/1', [F(-9, 2)], ['inaccuracy'])
check('F3b Fxp(3.75, n_frac=1, rounding=around): inferred s4/1 cannot hold around(7.5)=8',
      lambda: Fxp(3.75, n_frac=1, rounding='around'), 'fxp-s5/1', [4], ['inaccuracy'])
check('F3c Fxp(3.75, n_frac=1, rounding=ceil): inferred s4/1 cannot hold ceil(7.5)=8',
      lambda: Fxp(3.75, n_frac=1, rounding='ceil'), 'fxp-s5/1', [4], ['inaccuracy'])
check('F3d Fxp([0.5, 3.75], signed=False, n_frac=1, rounding=around): inferred u3/1 cannot hold 8',
      lambda: Fxp([0.5, 3.75], signed=False, n_frac=1, rounding='around'), 'fxp-u4/1', [F(1, 2), 4], ['inaccuracy'])

sys.exit(1 if violations else 0)
