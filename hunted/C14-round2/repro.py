import os, sys
sys.path.insert(0, os.environ.get('FXP_REPO', '/repo'))
import numpy as np
from fractions import Fraction
from fxpmath import Fxp

violations = 0
def violation(title, got, expected):
    global violations
    violations += 1
    print("VIOLATION {}: got {} expected {}".format(title, got, expected))
def borderline(title, got, expected):
    print("BORDERLINE {}: got {} expected {}".format(title, got, expected))

def codes(y):
    return [int(v) for v in np.asarray(y.val).flatten()]

# F1: trunc/keep right shift leaves the documented `real` attribute at the operand's value
for mode in ('trunc', 'keep'):
    x = Fxp([24, -28], True, 8, 2, raw=True, shifting=mode)      # 6.0, -7.0
    y = x >> 1
    exp = [Fraction(c >> 1, 4) for c in (24, -28)]                # 3.0, -3.5
    got_real = [Fraction(float(v)) for v in np.asarray(y.real).flatten()]
    if codes(y) == [12, -14] and got_real != exp:
        violation("F1 (x>>n).real is stale in %s mode" % mode, [float(g) for g in got_real], [float(e) for e in exp])

# F2: x<<0 (expand) is not the identity on the format when the most negative code is present
x = Fxp(-4, True, 3, 0, raw=True)
y = x << 0
if y.dtype != x.dtype:
    violation("F2 x<<0 changes the format (expand, most negative code)", y.dtype, x.dtype)
x = Fxp([-32, 5], True, 6, 3, raw=True)
y = x << 2
if y.n_word != 8:
    violation("F2b x<<2 grows a 6-bit word by more than 2 bits (most negative code)", y.dtype, 'fxp-s8/3')

# F3: trunc/keep left shift ignores overflow='wrap' of the operand (always saturates)
for mode in ('trunc', 'keep'):
    x = Fxp(3, True, 4, 0, raw=True, shifting=mode, overflow='wrap')
    y = x << 2                      # 12 -> wraps to -4 in s4
    wrapped = ((3 << 2) + 8) % 16 - 8
    if codes(y) != [wrapped]:
        violation("F3 x<<n ignores overflow='wrap' in %s mode" % mode, codes(y), [wrapped])

# F4: a NumPy integer shift count raises (data dependent for >>)
x = Fxp(101, True, 8, 0, raw=True)
for title, f, exp in (("x<<np.int64(1)", lambda: x << np.int64(1), 202), ("x>>np.int64(1)", lambda: x >> np.int64(1), Fraction(101, 2))):
    try:
        y = f()
        got = Fraction(codes(y)[0]) / Fraction(2) ** y.n_frac
        if got != exp:
            violation("F4 " + title, got, exp)
    except Exception as e:
        violation("F4 %s raises (expand mode)" % title, repr(e), exp)

# B1 (borderline): the result drops the operand's configuration (chained trunc shifts expand) and scaling
x = Fxp(3, True, 8, 0, raw=True, shifting='trunc')
y = (x << 6) << 1
if (y.n_word, y.n_frac) != (8, 0):
    borderline("B1 (x<<6)<<1 with shifting='trunc' changes the format", y.dtype, x.dtype)
x = Fxp(5.0, True, 8, 2, scale=2.0, bias=1.0)
y = x << 1
if float(y()) != 10.0:
    borderline("B2 scaled operand: (x<<1)() with x()==5.0", float(y()), 10.0)

sys.exit(1 if violations else 0)
