#!/usr/bin/env python
"""
C12 hunt (round 3) - re-checks every finding with an exact oracle.
Prints one line per finding starting with "VIOLATION" or "holds"; exit status 1 if a clearly-inside finding is violated.
"""
import os, sys, warnings
sys.path.insert(0, os.environ.get('FXP_REPO', '/repo'))
warnings.simplefilter('ignore')
import numpy as np
import fxpmath
from fxpmath import Fxp
from fxpmath.callbacks import Callback

print('# fxpmath from', fxpmath.__file__)


def fmt(x):
    """(signed, n_word, n_frac, complex) of an object"""
    return (bool(x.signed), int(x.n_word), int(x.n_frac), bool(x.vdtype == complex or np.iscomplexobj(x.val)))


def render(signed, n_word, n_frac, cx, notation):
    """oracle: the dtype string of a format"""
    if notation == 'Q':
        return '%s%d.%d' % ('Q' if signed else 'UQ', n_word - n_frac, n_frac)
    return 'fxp-%s%d/%d%s' % ('s' if signed else 'u', n_word, n_frac, '-complex' if cx else '')


inside_violated = False


def report(tag, inside, violated, detail):
    global inside_violated
    if violated and inside:
        inside_violated = True
    print('%s %s [%s] %s' % ('VIOLATION' if violated else 'holds', tag, 'INSIDE' if inside else 'BORDERLINE', detail))


def attempt(f):
    try:
        return f()
    except Exception as e:      # an exception is reported as the observed result
        return 'EXC %s: %s' % (type(e).__name__, e)


# ---------------------------------------------------------------------------------------------------------------------
# F1 (inside): constructing with a real value and dtype=x.dtype of a complex x drops the complex suffix
x = Fxp(0.5 + 1j, True, 16, 8)                      # x.dtype == 'fxp-s16/8-complex'
want = fmt(x)
bad = []
for label, v in (('3.0', 3.0), ('7', 7), ('[1.5, 2]', [1.5, 2]), ('np.float32(1.5)', np.float32(1.5)), ('Fxp(1.5)', Fxp(1.5)), ("'0b0101'", '0b0101')):
    y = attempt(lambda: Fxp(v, dtype=x.dtype))
    if not isinstance(y, Fxp) or fmt(y) != want or y.dtype != x.dtype:
        bad.append('%s -> %s' % (label, y.dtype if isinstance(y, Fxp) else y))
y0 = Fxp(None, dtype=x.dtype)
report('F1 Fxp(real value, dtype=<complex x>.dtype)', True, bool(bad),
       'want %s %s (as Fxp(None, dtype=..) gives: %s); got %s' % (x.dtype, want, y0.dtype, '; '.join(bad) if bad else 'the same'))

# F1 sweep: every real carrier, every format of the quantifier with n_word <= 52
n_bad = n_all = 0
for s in (True, False):
    for nw in range(1, 53):
        for nf in range(-8, nw + 9):
            d = render(s, nw, nf, True, 'fxp')
            y = Fxp(1, dtype=d)
            n_all += 1
            if fmt(y) != (s, nw, nf, True) or y.dtype != d:
                n_bad += 1
report('F1-sweep Fxp(1, dtype=d) for all complex d with n_word<=52', True, n_bad > 0, '%d of %d formats lose the complex suffix' % (n_bad, n_all))

# ---------------------------------------------------------------------------------------------------------------------
# F2 (inside): resizing a SCALED object that holds a value with dtype=x.dtype of a complex x drops the complex suffix
# (the same call on an unscaled object keeps it)
x = Fxp(0.5 + 1j, True, 16, 8)
u = Fxp(1.5, True, 12, 4)
u.resize(dtype=x.dtype)
z = Fxp(1.5, True, 12, 4, scale=2, bias=1)
z.resize(dtype=x.dtype)
report('F2 scaled.resize(dtype=<complex x>.dtype)', True, fmt(z) != fmt(x) or z.dtype != x.dtype,
       'want %s %s; unscaled object gives %s %s; scaled object gives %s %s' % (x.dtype, fmt(x), u.dtype, fmt(u), z.dtype, fmt(z)))
z2 = Fxp(1.5, True, 12, 4, scale=2, bias=1)
z2.resize(dtype=x.dtype, restore_val=False)
report('F2b scaled.resize(dtype=.., restore_val=False) (control)', True, fmt(z2) != fmt(x), 'gives %s' % z2.dtype)

# ---------------------------------------------------------------------------------------------------------------------
# B1 (borderline): with the Q notation configured, the dtype string of a complex object does not determine its format
xq = Fxp(1 + 2j, True, 16, 8, dtype_notation='Q')
xr = Fxp(1.0, True, 16, 8, dtype_notation='Q')
y = Fxp(None, dtype=xq.dtype)
report('B1 dtype attribute of a complex object under dtype_notation="Q"', False, xq.dtype == xr.dtype and fmt(xq) != fmt(xr) or fmt(y) != fmt(xq),
       'complex %s and real %s both render %r; Fxp(None, dtype=%r) -> %s' % (fmt(xq), fmt(xr), xq.dtype, xq.dtype, fmt(y)))

# B2 (borderline): a callback fired by resize() sees the new sizes with the old dtype string
seen = []


class CB(Callback):
    def on_status_overflow(self, o, logs=None):
        seen.append((o.dtype, render(o.signed, o.n_word, o.n_frac, False, 'fxp')))


x = Fxp(100.3, True, 16, 4, callbacks=[CB()])
x.resize(dtype='fxp-s8/2')
report('B2 dtype seen by an on_status_overflow callback during resize(dtype=)', False, any(a != b for a, b in seen),
       'callback saw dtype/format pairs %s' % seen)

# B3 (borderline): the complex flag of like= / template / an earlier complex dtype survives a real dtype
c = Fxp(1 + 2j, True, 16, 8)
r = Fxp(1.5, True, 12, 4)
y = Fxp(None, like=c, dtype=r.dtype)
w = Fxp(None, dtype=c.dtype)
w.resize(dtype=r.dtype)       # holds only the real value 0
report('B3 Fxp(None, like=<complex>, dtype=<real r>.dtype) / complex-typed zero resized to a real dtype', False,
       fmt(y) != fmt(r) or fmt(w) != fmt(r), 'want %s; like= gives %s, resize gives %s' % (r.dtype, y.dtype, w.dtype))

# B4 (borderline): get_dtype(notation) with any spelling other than exactly 'Q' silently renders the fxp notation
x = Fxp(1.5, True, 16, 8, dtype_notation='Q')
got = {n: x.get_dtype(n) for n in ('q', 'S', 'UQ', 'Qm.n')}
report('B4 get_dtype("q"/"S"/"UQ"/...) on an object configured for Q', False, any(v != 'Q8.8' for v in got.values()), 'got %s (documented: anything but "Q" means fxp)' % got)

# B5 (borderline, n_word > 52): complex dtype strings with n_frac >= 63 cannot be constructed (resize accepts them)
d = 'fxp-s56/63-complex'
y = attempt(lambda: Fxp(None, dtype=d))
z = Fxp(0.5, True, 8, 4)
z.resize(dtype=d)
report('B5 Fxp(None, dtype=%r)' % d, False, not isinstance(y, Fxp) or y.dtype != d, 'constructor: %s; resize: %s' % (y.dtype if isinstance(y, Fxp) else y, z.dtype))

# B6 (borderline): a complex NumPy value type given to a raw write is not rendered as complex
x = Fxp(5, True, 16, 0)
x.set_val(5, raw=True, vdtype=np.complex128)
report('B6 set_val(raw=True, vdtype=np.complex128)', False, ('-complex' in x.dtype) != issubclass(x.vdtype, complex), 'vdtype %s, dtype %s' % (x.vdtype, x.dtype))

# B7 (borderline): unanchored regular expressions - trailing text (also a -complex suffix on Q strings) is ignored silently
got = {d: attempt(lambda: Fxp(None, dtype=d).dtype) for d in ('S8.8-complex', 'Q8.8.8', 'u8/3', 'fxp-s16/8garbage', 'fxp-s16/8-complexity')}
report('B7 malformed dtype strings accepted', False, any(not str(v).startswith('EXC') for v in got.values()), str(got))

# ---------------------------------------------------------------------------------------------------------------------
# H1 (held): exhaustive render / re-parse bijection (reduced here to every 3rd word length to keep the run short)
n_bad = n_all = 0
for notation in ('fxp', 'Q'):
    for s in (True, False):
        for nw in list(range(1, 257, 3)) + [52, 53, 63, 64, 65, 256]:
            for nf in range(-8, nw + 9):
                for cx in ((False, True) if nw <= 52 else (False,)):
                    x = Fxp(1j if cx else None, s, nw, nf, dtype_notation=notation)
                    for n2 in ('fxp', 'Q'):
                        d = x.get_dtype(n2)
                        n_all += 1
                        if d != render(s, nw, nf, cx, n2) or x.dtype != render(s, nw, nf, cx, notation):
                            n_bad += 1
                            continue
                        if n2 == 'Q' and (nw - nf < 0 or cx):
                            continue
                        for dd in (d, d.upper(), d.lower()):
                            y = Fxp(None, dtype=dd)
                            z = Fxp(0.0, True, 7, 3)
                            z.resize(dtype=dd)
                            if fmt(y) != (s, nw, nf, cx) or fmt(z) != (s, nw, nf, cx) or fxpmath.utils.get_sizes_from_dtype(dd) != (s, nw, nf):
                                n_bad += 1
report('H1 render / parse round trip, both notations, both defaults, value None', True, n_bad > 0, '%d failures in %d renderings' % (n_bad, n_all))

sys.exit(1 if inside_violated else 0)
