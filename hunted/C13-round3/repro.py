#!/usr/bin/env python
"""C13 hunt (round 3) - re-checks every finding with an exact integer / Fraction oracle.

One line per finding, starting with VIOLATION or holds.
Exit status 1 only if a CLEARLY-INSIDE finding is violated (there is none in this round: every finding is BORDERLINE),
else 0.
"""
import os, sys, warnings
sys.path.insert(0, os.environ.get('FXP_REPO', '/repo'))
from fractions import Fraction
import numpy as np
from fxpmath import Fxp

warnings.simplefilter('ignore')

inside_violated = False


def pattern(f):
    """n_word-bit two's-complement patterns of an Fxp (list of Python ints), from the stored raw codes."""
    return [int(t) % (1 << f.n_word) for t in np.asarray(f.val).flatten().tolist()]


def fmt(f):
    return (bool(f.signed), int(f.n_word), int(f.n_frac))


def report(tag, inside, violated, detail):
    global inside_violated
    if violated and inside:
        inside_violated = True
    print('{} [{}] {}: {}'.format('VIOLATION' if violated else 'holds', 'INSIDE' if inside else 'BORDERLINE', tag, detail))


def attempt(f):
    try:
        return f(), None
    except Exception as e:      # noqa
        return None, e


# ---------------------------------------------------------------------------------------------------------------------
# sanity: the operator forms (what the property names) hold - compact exhaustive sweep, n_word <= 4, all pairs
# ---------------------------------------------------------------------------------------------------------------------
def resign(p, s, n):
    return p - (1 << n) if s and p >= (1 << (n - 1)) else p

bad = 0
for n in range(1, 5):
    for sx in (True, False):
        for sy in (True, False):
            for nf in range(0, n + 1):
                px = np.repeat(np.arange(1 << n), 1 << n).tolist()
                py = np.tile(np.arange(1 << n), 1 << n).tolist()
                x = Fxp([resign(p, sx, n) for p in px], sx, n, nf, raw=True)
                y = Fxp([resign(p, sy, n) for p in py], sy, n, n - nf, raw=True)
                M = (1 << n) - 1
                for R, e in ((~x, [(~a) & M for a in px]), (x & y, [a & b for a, b in zip(px, py)]),
                             (x | y, [a | b for a, b in zip(px, py)]), (x ^ y, [a ^ b for a, b in zip(px, py)])):
                    if pattern(R) != e or fmt(R) != fmt(x):
                        bad += 1
report('S0 operator forms, all code pairs n_word<=4 (every signedness, n_frac 0..n_word)', True, bad != 0,
       '{} mismatching configurations'.format(bad))

# ---------------------------------------------------------------------------------------------------------------------
# B1  NumPy function form of the same operations (Fxp as FIRST input of the ufunc)
# ---------------------------------------------------------------------------------------------------------------------
# B1a np.invert on an unsigned object: expected fxp-u8/0, pattern ~5 & 0xFF = 0xFA
x = Fxp(5, False, 8, 0)
r, e = attempt(lambda: np.invert(x))
ok = e is None and isinstance(r, Fxp) and fmt(r) == fmt(x) and pattern(r) == [(~5) & 0xFF]
report('B1a np.invert(Fxp(5,False,8,0))', False, not ok,
       'expected fxp-u8/0 pattern 0xFA; got {}'.format('{} {}'.format(r.dtype, pattern(r)) if e is None else repr(e)))

# B1b different word lengths must be rejected (the operator raises ValueError)
x8, y16 = Fxp(-3, True, 8, 0), Fxp(0x1ff, True, 16, 0)
_, e_op = attempt(lambda: x8 & y16)
r, e = attempt(lambda: np.bitwise_and(x8, y16))
report('B1b np.bitwise_and(s8, s16) must be rejected', False, e is None,
       'operator raises {}; function form returns {}'.format(type(e_op).__name__,
                                                              '{} {}'.format(r.dtype, pattern(r)) if e is None else repr(e)))

# B1c same word length, both signed: result must have x's format (fxp-s8/0), pattern 0xFD & 0x05 = 0x05
x, y = Fxp(-3, True, 8, 0), Fxp(5, True, 8, 0)
r, e = attempt(lambda: np.bitwise_and(x, y))
ok = e is None and isinstance(r, Fxp) and fmt(r) == fmt(x) and pattern(r) == [0xFD & 0x05]
report('B1c np.bitwise_and(s8, s8) keeps x\'s format', False, not ok,
       'expected fxp-s8/0 [5]; got {}'.format('{} {}'.format(r.dtype, pattern(r)) if e is None else repr(e)))

# B1d mixed signedness / fractional formats: expected a result (as for the operator), library raises TypeError
x, y = Fxp(-3, True, 8, 0), Fxp(0xF0, False, 8, 0)
r, e = attempt(lambda: np.bitwise_and(x, y))
ok = e is None and isinstance(r, Fxp) and fmt(r) == fmt(x) and pattern(r) == [0xFD & 0xF0]
report('B1d np.bitwise_and(s8, u8)', False, not ok,
       'expected fxp-s8/0 [0xF0] (operator gives {}); got {}'.format(pattern(x & y),
                                                                     '{} {}'.format(r.dtype, pattern(r)) if e is None else repr(e)[:60]))
x = Fxp(1.25, True, 8, 2)      # code 5
r, e = attempt(lambda: np.bitwise_xor(x, 1))
r2, e2 = attempt(lambda: np.bitwise_xor(1, x))
ok = e is None and isinstance(r, Fxp) and fmt(r) == fmt(x) and pattern(r) == [5 ^ 1]
report('B1e np.bitwise_xor(Fxp s8/2, 1) (mask as SECOND input)', False, not ok,
       'expected fxp-s8/2 [4] (np.bitwise_xor(1, x) gives {}); got {}'.format(
           pattern(r2) if e2 is None else repr(e2)[:40], '{} {}'.format(r.dtype, pattern(r)) if e is None else repr(e)[:60]))

# B1f in-place operator with the integer mask (a NumPy array) on the left: arr &= x
arr = np.array([3, 3])
x = Fxp([-3, 5], True, 8, 0)
def _ip():
    global arr
    arr &= x
    return arr
r, e = attempt(_ip)
ok = e is None and isinstance(r, Fxp) and fmt(r) == fmt(x) and pattern(r) == [3 & 0xFD, 3 & 5]
report('B1f arr &= x (mask array on the left, in place)', False, not ok,
       'expected fxp-s8/0 [1, 1] (arr & x gives {}); got {}'.format(
           (np.array([3, 3]) & x).dtype, '{} {}'.format(getattr(r, 'dtype', type(r)), pattern(r) if isinstance(r, Fxp) else r) if e is None else repr(e)[:60]))

# ---------------------------------------------------------------------------------------------------------------------
# B2  "~x == -x - LSB for signed x", evaluated with the library's own operators, at the minimum code
# ---------------------------------------------------------------------------------------------------------------------
viol = []
tot = 0
for n in range(2, 7):
    for nf in range(0, n + 1):
        for c in range(-(1 << (n - 1)), 1 << (n - 1)):
            x = Fxp(c, True, n, nf, raw=True)
            lsb = Fxp(1, True, n, nf, raw=True)
            rhs = -x - lsb
            tot += 1
            exact_l = Fraction(int((~x).val), 1 << nf)
            exact_r = Fraction(int(rhs.val), 1 << rhs.n_frac)
            if exact_l != exact_r or not bool((~x) == rhs):
                viol.append((n, nf, c))
report('B2 ~x == -x - LSB over all signed codes, n_word 2..6', False, len(viol) > 0,
       '{} of {} codes fail; all at the minimum code: {}; e.g. {}'.format(
           len(viol), tot, all(c == -(1 << (n - 1)) for n, nf, c in viol), viol[:3]))
for n in (16, 33):
    x = Fxp(-(1 << (n - 1)), True, n, 3, raw=True)
    rhs = -x - Fxp(1, True, n, 3, raw=True)
    report('B2 ~x == -x - LSB at the minimum code, n_word={}'.format(n), False, int((~x).val) != int(rhs.val) or rhs.n_frac != 3,
           '~x code {}, (-x - LSB) code {} ({})'.format(int((~x).val), int(rhs.val), rhs.dtype))

# ---------------------------------------------------------------------------------------------------------------------
# B3  in-place operator on an element of an unsigned 54..63-bit array with fractional bits: a[i] ^= m
# ---------------------------------------------------------------------------------------------------------------------
for n, nf in ((63, 1), (60, 60), (63, 0)):
    c = (1 << (n - 1)) + 3
    a = Fxp([c, c], False, n, nf, raw=True)
    good = pattern(a[0] ^ 1) == [c ^ 1]            # the operator itself
    a[0] ^= 1
    report('B3 a[0] ^= 1 on fxp-u{}/{} (code 2**{}+3)'.format(n, nf, n - 1), False, int(a.val[0]) != c ^ 1,
           'operator result correct: {}; stored element {} (expected {})'.format(good, int(a.val[0]), c ^ 1))
    a = Fxp([c, c], False, n, nf, raw=True)
    a[0] = ~a[0]
    report('B3 a[0] = ~a[0] on fxp-u{}/{}'.format(n, nf), False, int(a.val[0]) != (~c) % (1 << n),
           'stored element {} (expected {})'.format(int(a.val[0]), (~c) % (1 << n)))

sys.exit(1 if inside_violated else 0)
