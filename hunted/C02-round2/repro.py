"""Reproducers for property C02 (well-formed objects: codes in range, metadata consistent, saturation on the input's side).
fxpmath is imported from $FXP_REPO (default /repo). Exit code 1 if any violation reproduces."""
import os, sys, warnings
sys.path.insert(0, os.environ.get('FXP_REPO', '/repo'))
warnings.simplefilter('ignore')
import math
from fractions import Fraction
import numpy as np
from fxpmath import Fxp

violations = 0
def report(title, got, expected):
    global violations
    violations += 1
    print('VIOLATION %s: got %s expected %s' % (title, got, expected))

def bounds(x):
    if x.signed:
        return -(1 << (x.n_word - 1)), (1 << (x.n_word - 1)) - 1
    return 0, (1 << x.n_word) - 1

def int_codes(x):
    """codes as exact Python numbers (real and imaginary parts for complex storage)"""
    out = []
    for e in np.asarray(x.val).flatten():
        if isinstance(e, np.ndarray): e = e.item()
        if isinstance(e, (complex, np.complexfloating)):
            out += [Fraction(float(e.real)), Fraction(float(e.imag))]
        elif isinstance(e, (float, np.floating)):
            out.append(Fraction(float(e)))
        else:
            out.append(Fraction(int(e)))
    return out

def sat_code(v, x, rounding='trunc'):
    """exact oracle: round(v * 2**n_frac) clamped to the format of x"""
    fr = Fraction(v) * Fraction(2) ** x.n_frac
    c = {'trunc': math.trunc, 'fix': math.trunc, 'floor': math.floor, 'ceil': math.ceil, 'around': round}[rounding](fr)
    lo, hi = bounds(x)
    return max(lo, min(hi, c))

def check_store(title, make, inputs):
    """make() -> Fxp holding `inputs` (flat list of real numbers); codes must equal the exact saturating oracle and be in range"""
    try:
        x = make()
    except Exception as e:
        print('no violation (exception %r) for %s' % (e, title)); return
    lo, hi = bounds(x)
    got = int_codes(x)
    exp = [Fraction(sat_code(v, x, x.config.rounding)) for v in inputs]
    if any(not (lo <= g <= hi) for g in got) or got != exp:
        report(title, '%s codes %s (range [%d, %d])' % (x.dtype, [str(g) for g in got], lo, hi), [str(e) for e in exp])
    else:
        print('ok', title)

# ---- F1: float array, word of 54/55..63 bits: a saturated element is stored as upper code + 1
check_store('F1a float list saturates to max code + 1 (fxp-s63/62, [0.5, 1.0])', lambda: Fxp([0.5, 1.0], True, 63, 62), [0.5, 1.0])
check_store('F1b float list saturates to max code + 1 (fxp-s55/0, [0.0, 2**60])', lambda: Fxp([0.0, 2.0**60], True, 55, 0), [0.0, 2.0**60])
check_store('F1c unsigned fxp-u54/53, [0.25, 3.0]', lambda: Fxp([0.25, 3.0], False, 54, 53), [0.25, 3.0])
check_store('F1d set_val on fxp-s60/0 with ndarray [1.0, 1e18]', lambda: Fxp(np.zeros(2), True, 60, 0).set_val(np.array([1.0, 1e18])), [1.0, 1e18])
def _f1e():
    x = Fxp(np.zeros(3), True, 60, 0); x[0:2] = [1.0, 1e18]; return x
check_store('F1e slice assignment on fxp-s60/0', _f1e, [1.0, 1e18, 0])

# ---- F2: word of 64 bits or more, float array element equal to upper + 1 LSB is stored as max code + 1
check_store('F2a fxp-s64/63 holding [1.0, 0.5] (Q1.63 with the value 1.0)', lambda: Fxp([1.0, 0.5], True, 64, 63), [1.0, 0.5])
check_store('F2b fxp-s64/0 holding [2.0**63]', lambda: Fxp([2.0**63], True, 64, 0), [2.0**63])
check_store('F2c fxp-u64/63 holding ndarray [2.0]', lambda: Fxp(np.array([2.0]), False, 64, 63), [2.0])
check_store('F2d fxp-s70/0 2-D [[2.0**69]]', lambda: Fxp([[2.0**69]], True, 70, 0), [2.0**69])
def _f2e():
    a = Fxp([3.0, 1.0], False, 70, 69, op_method='repr')     # 3.0 saturates: a = [2 - 2**-69, 1.0]
    return a * a                                             # value method: float product 4.0 stored in fxp-u140/138
_a = Fxp([3.0, 1.0], False, 70, 69)
_true = [Fraction(int(c), 2**69) ** 2 for c in _a.val]        # exact products fit exactly in u140/138
try:
    z = _f2e(); lo, hi = bounds(z); got = int_codes(z)
    if any(not (lo <= g <= hi) for g in got):
        report('F2e product (op_method=repr) of two fxp-u70/69 arrays holds a code above the range of fxp-u140/138',
               '%s codes %s' % (z.dtype, [str(g) for g in got]), 'codes <= %d (exact product code %s)' % (hi, _true[0] * 2**138))
    else: print('ok F2e')
except Exception as e: print('no violation (exception %r) F2e' % e)

# ---- F3: scaled object (integer bias), Python int at the int64 edge saturates on the OPPOSITE side
for v, kw in ((-2**63, dict(scale=1, bias=1)), (2**63 - 1, dict(scale=1, bias=-1)), ([-2**63, 0], dict(scale=2, bias=1))):
    try:
        x = Fxp(v, True, 16, 0, **kw)
        vs = v if isinstance(v, list) else [v]
        # exact oracle: code = clamp(trunc((v - bias) / scale))
        lo, hi = bounds(x)
        exp = [Fraction(max(lo, min(hi, math.trunc(Fraction(u - kw['bias'], kw['scale']))))) for u in vs]
        got = int_codes(x)
        if got != exp:
            report('F3 scaled fxp-s16/0 %r input %r saturates on the opposite side' % (kw, v), [str(g) for g in got], [str(e) for e in exp])
        else: print('ok F3', v)
    except Exception as e: print('no violation (exception %r) F3' % e)

# ---- F4: conj / np.conj of a REAL wide object returns codes outside the format (complex128 storage)
for title, mk in (('F4a Fxp(2**63-1, s64/0).conj()', lambda: Fxp(2**63 - 1, True, 64, 0).conj()),
                  ('F4b np.conj(Fxp([2**62-1, 5], s63/0))', lambda: np.conj(Fxp([2**62 - 1, 5], True, 63, 0)))):
    try:
        y = mk(); lo, hi = bounds(y); got = int_codes(y)
        if any(not (lo <= g <= hi) for g in got):
            report(title, '%s codes %s' % (y.dtype, [str(g) for g in got]), 'every code within [%d, %d]' % (lo, hi))
        else: print('ok', title)
    except Exception as e: print('no violation (exception %r) %s' % (e, title))
# complex value saturating in a wide word
try:
    y = Fxp([0.5 + 0j, complex(2.0**61, -2.0**80)], True, 60, 1); lo, hi = bounds(y); got = int_codes(y)
    if any(not (lo <= g <= hi) for g in got):
        report('F4c complex list saturating in fxp-s60/1', '%s codes %s' % (y.dtype, [str(g) for g in got]), 'codes [1, 0, %d, %d]' % (hi, lo))
    else: print('ok F4c')
except Exception as e: print('no violation (exception %r) F4c' % e)

# ---- F5: complex metadata
try:
    x = Fxp([1 + 2j, 3 + 4j], True, 16, 0); e = (x + x)[0]
    if np.iscomplexobj(np.asarray(e.val)) and not e.dtype.endswith('-complex'):
        report('F5a element of a complex sum has a dtype string without -complex', '%s for val %r (vdtype %r)' % (e.dtype, e.val, e.vdtype), 'fxp-s17/0-complex')
    else: print('ok F5a')
    b = Fxp(0.5, dtype='fxp-s16/8-complex')
    exp_u = float(Fraction(2**15 - 1, 2**8))
    if isinstance(b.upper, complex) and not b.dtype.endswith('-complex'):
        report('F5b real-valued object with real dtype string reports complex upper/lower/precision',
               'dtype %s upper %r lower %r precision %r' % (b.dtype, b.upper, b.lower, b.precision), 'upper %r lower -128.0 precision 0.00390625' % exp_u)
    else: print('ok F5b')
    a = Fxp(1 + 1j, True, 16, 8); u0 = a.upper; a.resize(n_word=16); u1 = a.upper
    if u0 != u1:
        report('F5c same object, same format: upper changes after a no-op resize', '%r then %r' % (u0, u1), '%r both times' % exp_u)
    else: print('ok F5c')
except Exception as e: print('no violation (exception %r) F5' % e)

# ---- borderline B1: raw uint64 code >= 2**63 saturates on the opposite side
try:
    x = Fxp(np.uint64(2**63 + 5), False, 16, 0, raw=True)
    if int(x.val) != 65535:
        report('B1 (borderline) raw np.uint64(2**63+5) into fxp-u16/0', int(x.val), 65535)
    else: print('ok B1')
except Exception as e: print('no violation (exception %r) B1' % e)

# ---- borderline B2: rejected resize() call leaves an ill-formed object
try:
    x = Fxp(-3, True, 8, 0)
    try: x.resize(signed=False, dtype='fxp-u8/0')
    except ValueError: pass
    lo, hi = bounds(x)
    if not (lo <= int(x.val) <= hi) or x.dtype != 'fxp-%s8/0' % ('s' if x.signed else 'u'):
        report('B2 (borderline) resize(signed=False, dtype=...) raises ValueError but leaves signed=False',
               'signed %r val %r dtype %s lower %r' % (x.signed, int(x.val), x.dtype, x.lower), 'unchanged fxp-s8/0 object')
    else: print('ok B2')
except Exception as e: print('no violation (exception %r) B2' % e)

# ---- borderline B3: representation of wide (>= 64 bit) objects
try:
    y = Fxp(5, True, 64, 0, shifting='trunc') >> 1
    if not isinstance(y.val, (np.ndarray, np.generic)):
        report('B3a (representation) wide scalar >> 1 with shifting=trunc: val is a bare Python int (no .shape)', type(y.val).__name__, 'ndarray')
    else: print('ok B3a')
    x = Fxp([1, 2], True, 64, 0); x[0] = 7
    if isinstance(x.val[0], np.ndarray):
        report('B3b (representation) indexed assignment into a wide array stores a nested 0-d array as the code', repr(x.val), 'array([7, 2], dtype=object)')
    else: print('ok B3b')
except Exception as e: print('no violation (exception %r) B3' % e)

# ---- borderline B4: left shift computed in int64 before saturation
try:
    y = Fxp(3, True, 8, 0, shifting='trunc') << 62
    if int(y.val) != 127:
        report('B4 (borderline) Fxp(3, s8/0, shifting=trunc) << 62 saturates on the opposite side', int(y.val), 127)
    else: print('ok B4')
    y = Fxp(3, True, 8, 0) << 62
    if int(y.val) != 3 << 62:
        report('B4 (borderline, value only) Fxp(3, s8/0) << 62 with shifting=expand', '%s %d' % (y.dtype, int(y.val)), 3 << 62)
    else: print('ok B4b')
except Exception as e: print('no violation (exception %r) B4' % e)

print('%d violation(s)' % violations)
sys.exit(1 if violations else 0)
